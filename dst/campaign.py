"""Seeded campaigns: many short diverse runs of one property module across all cores.

A property module (dst/props/cXX.py) provides
    ID, LEVEL, RULE, ASSUMPTIONS, DESIGN_REF
    budget(tier)            -> number of scenarios
    gen(rng, tier)          -> ScenarioSpec (pure data)
    run(spec)               -> Result
    extra_candidates(spec)  -> optional iterator of simpler specs (property-specific shrinking)
"""
import concurrent.futures as cf
import faulthandler
import hashlib
import importlib
import json
import multiprocessing
import os
import random
import sys
import time
import zlib

from . import env, findings, seams, shrink

COMPONENTS = {
    "real": "all of pDESy.model.* from the working tree: step loop, allocation, state machines, PERT, "
            "JSON write/read, log edits, backward run, reporting functions",
    "stubbed": "file system (in-memory open for 'mem:' paths), uuid4 (counter), datetime.now (frozen), "
               "numpy global RNG (seeded per run; sd=0 so values do not depend on it)",
    "not_exercised": "matplotlib / plotly / networkx drawing functions",
}


class Result(object):
    def __init__(self):
        self.violations = []  # dicts: clause, key, msg, step
        self.stats = {}
        self.nontrivial = False
        self.digest = ""
        self.steps = 0
        self.rec = None  # optional Recorder of the main run (distinct-state measure on sampled runs)

    def add(self, clause, key, msg, step=None):
        for v in self.violations:
            if v["key"] == key:
                return
        self.violations.append({"clause": clause, "key": key, "msg": msg, "step": step})

    def count(self, name, n=1):
        self.stats[name] = self.stats.get(name, 0) + n


def run_spec(mod, spec):
    """mod.run(spec); a model the library did not build as specified is a violation of whatever is being checked."""
    try:
        return mod.run(spec)
    except seams.SutMisbehaviour as e:
        res = Result()
        res.count("runs")
        res.add("model", "%s.model_not_built_as_specified.%s" % (mod.ID, e.kind), str(e), None)
        res.digest = "build"
        return res


def prop_module(pid):
    return importlib.import_module("dst.props." + pid.lower())


def seed_of(base_seed, pid, i):
    return int(hashlib.sha256(("%d/%s/%d" % (base_seed, pid, i)).encode()).hexdigest()[:16], 16)


def spec_digest(spec):
    s = dict(spec)
    s.pop("seed", None)
    return int(hashlib.sha256(json.dumps(s, sort_keys=True).encode()).hexdigest()[:15], 16)


def make_spec(mod, base_seed, i, tier):
    sd = seed_of(base_seed, mod.ID, i)
    rng = random.Random(sd)
    spec = mod.gen(rng, tier)
    spec["seed"] = sd
    return spec


def _work(args):
    pid, tier, base_seed, start, stop, deadline, want_digests, hang_s = args
    faulthandler.dump_traceback_later(hang_s, exit=True)
    try:
        mod = prop_module(pid)
        agg = {"n": 0, "stats": {}, "nt": set(), "viol": [], "samples": [], "steps": 0, "digests": [],
               "first": start, "last": start - 1, "states": set(), "state_runs": 0, "sched": set()}
        sample = 1 if tier == "quick" else 64
        for i in range(start, stop):
            if deadline and time.time() > deadline:
                break
            spec = make_spec(mod, base_seed, i, tier)
            res = run_spec(mod, spec)
            agg["n"] += 1
            agg["last"] = i
            agg["steps"] += res.steps
            if res.rec is not None and i % sample == 0:
                from .props.common import state_digests
                agg["states"] |= state_digests(res.rec)
                agg["state_runs"] += 1
            for k, v in res.stats.items():
                agg["stats"][k] = agg["stats"].get(k, 0) + v
            if "ranks" in spec and i % sample == 0:
                agg["sched"].add(zlib.crc32(json.dumps([spec.get("model"), spec.get("ranks")], sort_keys=True).encode()))
            if res.nontrivial:
                agg["nt"].add(spec_digest(spec))
                if len(agg["samples"]) < 1:
                    agg["samples"].append(spec)
            if want_digests:
                agg["digests"].append((i, res.digest))
            for v in res.violations:
                if len(agg["viol"]) < 40 or not any(x[2]["key"] == v["key"] for x in agg["viol"]):
                    agg["viol"].append((i, spec, v))
        return agg
    finally:
        faulthandler.cancel_dump_traceback_later()


def run_campaign(pid, tier="quick", base_seed=0, workers=None, n=None, wall_cap=None, want_digests=False,
                 quiet=False):
    """Run the campaign; returns a summary dict (no printing of verdict lines here)."""
    env.setup()
    seams.install()
    mod = prop_module(pid)
    n = n or mod.budget(tier)
    workers = workers or min(16, os.cpu_count() or 1)
    t0 = time.time()
    deadline = (t0 + wall_cap) if wall_cap else None
    chunk = max(1, min(2000, n // (workers * 6) or 1))
    jobs = []
    i = 0
    while i < n:
        jobs.append((pid, tier, base_seed, i, min(n, i + chunk), deadline, want_digests,
                     max(600, int((wall_cap or 600) * 2))))
        i += chunk
    aggs = []
    if workers == 1:
        for j in jobs:
            aggs.append(_work(j))
    else:
        ctx = multiprocessing.get_context("fork")
        with cf.ProcessPoolExecutor(max_workers=workers, mp_context=ctx) as ex:
            for a in ex.map(_work, jobs):
                aggs.append(a)
    total = {"n": 0, "stats": {}, "nt": set(), "viol": [], "samples": [], "steps": 0, "digests": [], "states": set(), "state_runs": 0, "sched": set()}
    for a in aggs:
        total["sched"] |= a["sched"]
        total["states"] |= a["states"]
        total["state_runs"] += a["state_runs"]
        total["n"] += a["n"]
        total["steps"] += a["steps"]
        for k, v in a["stats"].items():
            total["stats"][k] = total["stats"].get(k, 0) + v
        total["nt"] |= a["nt"]
        total["viol"].extend(a["viol"])
        total["digests"].extend(a["digests"])
        if len(total["samples"]) < 3:
            total["samples"].extend(a["samples"][: 3 - len(total["samples"])])
    total["viol"].sort(key=lambda x: x[0])
    total["wall_s"] = time.time() - t0
    total["requested"] = n
    total["workers"] = workers
    return total


def minimise(mod, spec, key, budget=400):
    if "SutHang" in key:
        budget = min(budget, 25)  # every evaluation of a non-terminating call costs the watchdog interval

    def still(s):
        s = dict(s)
        r = run_spec(mod, s)
        return any(v["key"] == key for v in r.violations)

    extra = getattr(mod, "extra_candidates", None)
    return shrink.shrink(spec, still, extra, budget=budget)


def out_base():
    """Where replays/evidence are written: /verif, or $VERIF_OUT (used when checks run against a mutated scratch copy)."""
    return os.environ.get("VERIF_OUT") or env.VERIF


def write_replay(pid, key, spec_min, spec_orig, viol, base_seed, index, digest):
    d = os.path.join(out_base(), "replays", pid)
    os.makedirs(d, exist_ok=True)
    h = hashlib.sha256(json.dumps(spec_min, sort_keys=True).encode()).hexdigest()[:10]
    safe = "".join(ch if ch.isalnum() or ch in "._-" else "_" for ch in key)[:80]
    path = os.path.join(d, "%s-%s.json" % (safe, h))
    with open(path, "w") as f:
        json.dump(
            {
                "format": 1,
                "property": pid,
                "key": key,
                "clause": viol["clause"],
                "message": viol["msg"],
                "step": viol["step"],
                "VERIF_SEED": base_seed,
                "run_index": index,
                "spec": spec_min,
                "original_spec": spec_orig,
                "run_digest": digest,
                "repo": env.repo_rev(),
            },
            f,
            indent=1,
            sort_keys=True,
        )
    return path


def evidence(pid, mod, tier, base_seed, total, n_viol, extra=None):
    cov = {
        "evaluations": total["n"],
        "distinct_nontrivial": len(total["nt"]),
        "rule": mod.RULE,
        "samples": total["samples"][:3],
        "requested_evaluations": total["requested"],
        "simulated_steps": total["steps"],
        "runs_per_hour": int(total["n"] / max(total["wall_s"], 1e-9) * 3600),
        "seeds": {"VERIF_SEED": base_seed, "derivation": "sha256(VERIF_SEED/%s/i)[:16]" % pid,
                  "index_range": [0, total["n"]]},
        "counters": dict(sorted(total["stats"].items())),
        "distinct_states": {"count": len(total["states"]), "measured_on_runs": total["state_runs"],
                            "measure": "distinct crc32 digests of the complete live state (tasks, components, workers, facilities, "
                                       "workplaces) at the 'recorded' instant of a step; every run in quick, every 64th run in thorough"},
        "simulated_time_steps": total["steps"],
        "distinct_schedules": {"count": len(total["sched"]),
                               "measure": "distinct (model, hash-rank assignment) pairs = distinct iteration orders of the task/component sets "
                                          "that were executed as main run (twin runs under further schedules are counted in counters.schedules_compared); "
                                          "same sampling as distinct_states"},
        "fault_counts": {k: v for k, v in sorted(total["stats"].items())
                         if k.startswith(("fault.", "pause_", "inject_", "injected_run", "time_limit", "stage_", "op_", "history", "mode_", "edit_runs",
                                          "with_subproject", "refusal_", "twin_", "roundtrip_checked", "json_restart", "backward_prelude", "absence_"))},
        "components": COMPONENTS,
        "workers": total["workers"],
        "exhaustive": False,
    }
    if "evaluations_override" in total["stats"]:
        cov["scenarios"] = total["n"]
        cov["evaluations"] = int(total["stats"]["evaluations_override"])
        cov["counters"].pop("evaluations_override", None)
    if extra:
        cov.update(extra)
    ev = {
        "property_id": pid,
        "tier": tier,
        "seed": base_seed,
        "level": mod.LEVEL,
        "coverage": cov,
        "assumptions": list(getattr(mod, "ASSUMPTIONS", [])),
        "wall_s": round(total["wall_s"], 3),
        "violations": n_viol,
    }
    os.makedirs(os.path.join(out_base(), "evidence"), exist_ok=True)
    path = os.path.join(out_base(), "evidence", "%s.json" % pid)
    with open(path, "w") as f:
        json.dump(ev, f, indent=1, sort_keys=True, default=str)
    return path


def check(pid, tier="quick", base_seed=0, workers=None, n=None, wall_cap=None):
    """The registered check: campaign + triage + minimise + evidence.  Returns the exit code."""
    mod = prop_module(pid)
    total = run_campaign(pid, tier, base_seed, workers, n, wall_cap)
    known = findings.load()
    post_extra = {}
    if hasattr(mod, "post") and not any("SutHang" in v["key"] for (_, _, v) in total["viol"]):
        # (a tree on which calls do not terminate has its violation already; the sequential twin batch would only wait)
        t1 = time.time()
        post_extra, post_viol = mod.post(tier, base_seed)
        total["viol"].extend(post_viol)
        for k, v in post_extra.items():
            total["stats"][k] = total["stats"].get(k, 0) + v
        total["wall_s"] += time.time() - t1
    by_key = {}
    for (i, spec, v) in total["viol"]:
        by_key.setdefault(v["key"], []).append((i, spec, v))
    n_new = 0
    n_known = 0
    printed_known = set()
    budget_keys = 6
    for key in sorted(by_key, key=lambda k: by_key[k][0][0]):
        i, spec, v = by_key[key][0]
        kf = findings.match(known, pid, key)
        if kf is not None:
            n_known += len(by_key[key])
            if kf["id"] not in printed_known:
                printed_known.add(kf["id"])
                print("KNOWN-FINDING: property=%s %s [%s; %d scenario(s) this run, e.g. index %d]"
                      % (pid, kf["what"], key, len(by_key[key]), i))
            continue
        n_new += 1
        if budget_keys > 0:
            budget_keys -= 1
            spec_min, evals = minimise(mod, spec, key)
            r = run_spec(mod, dict(spec_min))
            vv = [x for x in r.violations if x["key"] == key]
            vmin = vv[0] if vv else v
            path = write_replay(pid, key, spec_min, spec, vmin, base_seed, i, r.digest)
        else:
            path = write_replay(pid, key, spec, spec, v, base_seed, i, "")
        print("VIOLATION property=%s replay=%s" % (pid, path))
        print("  key=%s count=%d first_index=%d step=%s :: %s" % (key, len(by_key[key]), i, v["step"], v["msg"]))
    # every listed open finding of this property is stated: one that this run's seeds did not reach is re-executed from its
    # recorded replay file (and stated only if it still fails on the tree under test)
    n_replayed = 0
    for kf in known:
        if kf.get("status") != "open" or kf.get("property") != pid or kf["id"] in printed_known or not kf.get("replay"):
            continue
        rpath = os.path.join(env.VERIF, kf["replay"])
        try:
            with open(rpath) as f:
                rp = json.load(f)
            r = run_spec(mod, dict(rp["spec"]))
            hit = [x for x in r.violations if findings.match([kf], pid, x["key"]) is not None]
        except Exception as e:  # a replay file that cannot be executed is reported, not hidden
            print("NOTE: recorded replay %s of known finding %s could not be executed: %r" % (kf["replay"], kf["id"], e))
            continue
        if hit:
            n_replayed += 1
            printed_known.add(kf["id"])
            print("KNOWN-FINDING: property=%s %s [%s; not reached by this run's seeds, reproduced from the recorded replay %s]"
                  % (pid, kf["what"], hit[0]["key"], kf["replay"]))
        else:
            print("NOTE: known finding %s no longer occurs in its recorded replay %s" % (kf["id"], kf["replay"]))
    extra = {"known_finding_hits": n_known, "known_findings_reproduced_from_replay": n_replayed}
    evidence(pid, mod, tier, base_seed, total, n_new, extra)
    zero = [k for k in getattr(mod, "PROBES", []) if total["stats"].get(k, 0) == 0]
    for k in zero:
        print("WARNING: reach probe %s stayed at 0 in this %s run of %s" % (k, tier, pid))
    print("%s %s: %d scenarios, %d nontrivial-distinct, %d steps, %.1fs, %d new violation key(s), %d known-finding hit(s)"
          % (pid, tier, total["n"], len(total["nt"]), total["steps"], total["wall_s"], n_new, n_known))
    if total["n"] == 0:
        print("HARNESS-ERROR: no scenario executed")
        return 2
    return 1 if n_new else 0


def replay(path):
    with open(path) as f:
        rp = json.load(f)
    env.setup()
    seams.install()
    mod = prop_module(rp["property"])
    r = run_spec(mod, dict(rp["spec"]))
    hit = [v for v in r.violations if v["key"] == rp["key"]]
    if hit:
        v = hit[0]
        print("VIOLATION property=%s replay=%s" % (rp["property"], path))
        print("  key=%s step=%s :: %s" % (v["key"], v["step"], v["msg"]))
        print("  run_digest=%s (recorded %s) %s" % (r.digest, rp.get("run_digest"),
                                                   "EXACT" if r.digest == rp.get("run_digest") else "digest differs"))
        return 1
    others = [v["key"] for v in r.violations]
    print("replay of %s: violation %s no longer occurs (other keys now: %s)" % (path, rp["key"], others))
    return 0
