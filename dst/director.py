"""The Director: runs real pDESy API calls for one scenario and records what happened.

* ``index(project)``      - API-level view of all objects of a project
* ``snapshot(ix)``        - live state of every object (pure data)
* ``Recorder``            - receives phase / move / sort events from the seams while one
                            simulate()/backward_simulate() call is running; can inject a fault
* ``call(...)``           - run one API call under a Recorder, classify the outcome
* ``dump(project)``       - every log, time, cost, status as pure data (differential oracles)
"""
import hashlib
import json
import traceback

from . import env, seams

NONE, READY, WORKING, FINISHED = 0, 1, 2, -1
FREE, R_WORKING, ABSENCE = 0, 1, -1
PHASES = ("init", "updated", "allocated", "performed", "recorded")


def _id(x):
    return getattr(x, "ID", x)


class Index(object):
    """All objects reachable from a project through its public lists."""

    def __init__(self, project):
        self.project = project
        self.tasks = list(project.workflow.task_list)
        self.comps = list(project.product.component_list)
        self.teams = list(project.organization.team_list)
        self.wps = list(project.organization.workplace_list)
        self.workers = [w for tm in self.teams for w in tm.worker_list]
        self.facs = [f for wp in self.wps for f in wp.facility_list]
        self.task = {t.ID: t for t in self.tasks}
        self.comp = {c.ID: c for c in self.comps}
        self.worker = {w.ID: w for w in self.workers}
        self.fac = {f.ID: f for f in self.facs}
        self.wp = {w.ID: w for w in self.wps}
        self.team = {t.ID: t for t in self.teams}


def index(project):
    return Index(project)


def snapshot(ix):
    p = ix.project
    T = {}
    for t in ix.tasks:
        T[t.ID] = (
            int(t.state),
            t.remaining_work_amount,
            tuple(_id(w) for w in t.allocated_worker_list),
            tuple(_id(f) for f in t.allocated_facility_list),
            t.est,
            t.eft,
            t.lst,
            t.lft,
        )
    C = {}
    for c in ix.comps:
        C[c.ID] = (int(c.state), _id(c.placed_workplace) if c.placed_workplace is not None else None)
    W = {}
    for w in ix.workers:
        W[w.ID] = (int(w.state), tuple(_id(t) for t in w.assigned_task_list))
    F = {}
    for f in ix.facs:
        F[f.ID] = (int(f.state), tuple(_id(t) for t in f.assigned_task_list))
    P = {}
    for wp in ix.wps:
        P[wp.ID] = tuple(_id(c) for c in wp.placed_component_list)
    return {
        "time": p.time,
        "T": T,
        "C": C,
        "W": W,
        "F": F,
        "P": P,
        "cpl": p.workflow.critical_path_length,
    }


def log_lengths(ix):
    """Length of every per-step log of every object: {(kind, id, attr): len}."""
    out = {}
    p = ix.project
    out[("project", "", "cost_list")] = len(p.cost_list)
    out[("organization", "", "cost_list")] = len(p.organization.cost_list)
    for t in ix.tasks:
        for a in (
            "state_record_list",
            "remaining_work_amount_record_list",
            "allocated_worker_id_record",
            "allocated_facility_id_record",
        ):
            out[("task", t.ID, a)] = len(getattr(t, a))
    for c in ix.comps:
        for a in ("state_record_list", "placed_workplace_id_record"):
            out[("component", c.ID, a)] = len(getattr(c, a))
    for tm in ix.teams:
        out[("team", tm.ID, "cost_list")] = len(tm.cost_list)
    for w in ix.workers:
        for a in ("state_record_list", "cost_list", "assigned_task_id_record"):
            out[("worker", w.ID, a)] = len(getattr(w, a))
    for wp in ix.wps:
        for a in ("cost_list", "placed_component_id_record"):
            out[("workplace", wp.ID, a)] = len(getattr(wp, a))
    for f in ix.facs:
        for a in ("state_record_list", "cost_list", "assigned_task_id_record"):
            out[("facility", f.ID, a)] = len(getattr(f, a))
    return out


def _plain(v):
    if isinstance(v, (list, tuple)):
        return [_plain(x) for x in v]
    if isinstance(v, bool) or v is None or isinstance(v, str):
        return v
    if isinstance(v, int):
        return int(v)
    if isinstance(v, float):
        return float(v)
    try:
        return float(v)
    except Exception:
        return repr(v)


def dump(project, ix=None, live=True):
    """Everything a user can read off a project after a run, as pure data."""
    ix = ix or index(project)
    p = project
    d = {
        "time": p.time,
        "status": int(p.status),
        "cost_list": _plain(p.cost_list),
        "org_cost_list": _plain(p.organization.cost_list),
        "absence_time_list": _plain(p.absence_time_list),
        "tasks": {},
        "components": {},
        "teams": {},
        "workers": {},
        "workplaces": {},
        "facilities": {},
    }
    for t in ix.tasks:
        e = {
            "state_record_list": [int(s) for s in t.state_record_list],
            "remaining_work_amount_record_list": _plain(t.remaining_work_amount_record_list),
            "allocated_worker_id_record": _plain(t.allocated_worker_id_record),
            "allocated_facility_id_record": _plain(t.allocated_facility_id_record),
        }
        if live:
            e["state"] = int(t.state)
            e["remaining_work_amount"] = float(t.remaining_work_amount)
            e["allocated_worker_list"] = [_id(w) for w in t.allocated_worker_list]
            e["allocated_facility_list"] = [_id(f) for f in t.allocated_facility_list]
        d["tasks"][t.ID] = e
    for c in ix.comps:
        e = {
            "state_record_list": [int(s) for s in c.state_record_list],
            "placed_workplace_id_record": _plain(c.placed_workplace_id_record),
        }
        if live:
            e["state"] = int(c.state)
            e["placed_workplace"] = _id(c.placed_workplace) if c.placed_workplace is not None else None
        d["components"][c.ID] = e
    for tm in ix.teams:
        d["teams"][tm.ID] = {"cost_list": _plain(tm.cost_list)}
    for w in ix.workers:
        e = {
            "state_record_list": [int(s) for s in w.state_record_list],
            "cost_list": _plain(w.cost_list),
            "assigned_task_id_record": _plain(w.assigned_task_id_record),
        }
        if live:
            e["state"] = int(w.state)
            e["assigned_task_list"] = [_id(t) for t in w.assigned_task_list]
        d["workers"][w.ID] = e
    for wp in ix.wps:
        e = {
            "cost_list": _plain(wp.cost_list),
            "placed_component_id_record": _plain(wp.placed_component_id_record),
        }
        if live:
            e["placed_component_list"] = [_id(c) for c in wp.placed_component_list]
        d["workplaces"][wp.ID] = e
    for f in ix.facs:
        e = {
            "state_record_list": [int(s) for s in f.state_record_list],
            "cost_list": _plain(f.cost_list),
            "assigned_task_id_record": _plain(f.assigned_task_id_record),
        }
        if live:
            e["state"] = int(f.state)
            e["assigned_task_list"] = [_id(t) for t in f.assigned_task_list]
        d["facilities"][f.ID] = e
    return d


def first_diff(a, b, path=""):
    """Path and values of the first difference between two pure-data structures, or None."""
    if type(a) is not type(b) and not (isinstance(a, (int, float)) and isinstance(b, (int, float))):
        return (path, a, b)
    if isinstance(a, dict):
        for k in sorted(set(a) | set(b), key=str):
            if k not in a or k not in b:
                return (path + "/" + str(k), a.get(k, "<missing>"), b.get(k, "<missing>"))
            r = first_diff(a[k], b[k], path + "/" + str(k))
            if r:
                return r
        return None
    if isinstance(a, list):
        if len(a) != len(b):
            return (path + "/len", len(a), len(b))
        for i, (x, y) in enumerate(zip(a, b)):
            r = first_diff(x, y, path + "[%d]" % i)
            if r:
                return r
        return None
    if a != b:
        return (path, a, b)
    return None


def digest(obj):
    return hashlib.sha256(json.dumps(obj, sort_keys=True, default=str).encode()).hexdigest()[:16]


class StepRec(object):
    __slots__ = ("t", "working", "ph", "moves", "sorts", "order", "synth_updated")

    def __init__(self, t):
        self.t = t
        self.synth_updated = False
        self.working = None
        self.ph = {}
        self.moves = []
        self.sorts = []
        self.order = []


class Recorder(object):
    """Receives the events of one simulate()/backward_simulate() call."""

    def __init__(self, project, inject=None, want_snap=True, want_sorts=False, sort_keyfn=None,
                 on_phase=None, snap_phases=None):
        self.project = project
        self.wf = project.workflow
        self.org = project.organization
        self.prod = project.product
        self.ix = index(project)
        self.in_init = 0
        self.own_call = False
        self.inject = inject  # {"step": k, "phase": p} or None
        self.injected = False
        self.want_snap = want_snap
        self.want_sorts = want_sorts
        self.sort_keyfn = sort_keyfn
        self.on_phase = on_phase
        self.snap_phases = snap_phases
        self.steps = []
        self.init_snap = None
        self.cur = None
        self.move_depth = 0
        self.n_recorded = 0
        self.pre_moves = []  # moves seen before the first 'updated' of a step (removal phase)
        self.phase_counts = {}

    # -- events from seams ---------------------------------------------------------------
    def phase(self, name, working=None):
        self.phase_counts[name] = self.phase_counts.get(name, 0) + 1
        if name == "init":
            # objects may have been replaced; re-index lazily
            if self.want_snap:
                self.init_snap = snapshot(self.ix)
            self._maybe_inject(name, self.project.time)
            return
        if name == "updated":
            self.cur = StepRec(self.project.time)
            self.cur.moves = self.pre_moves
            self.pre_moves = []
            self.steps.append(self.cur)
        cur = self.cur
        if name != "updated" and (cur is None or name in cur.ph):
            # a step went on without the update phase having been observed (the 'updated' instant is signalled by the PERT
            # update at the end of the update phase; a tree that skips that phase must not make its steps invisible):
            # open the step record here; its 'updated' snapshot is the first one this step offers
            cur = self.cur = StepRec(self.project.time)
            cur.moves = self.pre_moves
            self.pre_moves = []
            cur.synth_updated = True
            self.steps.append(cur)
            self.phase_counts["updated_not_observed"] = self.phase_counts.get("updated_not_observed", 0) + 1
            if self.want_snap and (self.snap_phases is None or "updated" in self.snap_phases):
                cur.ph["updated"] = snapshot(self.ix)
        if cur is None:  # call pattern not recognised: degrade, never alarm
            return
        if working is not None:
            cur.working = working
        if self.want_snap and (self.snap_phases is None or name in self.snap_phases):
            cur.ph[name] = snapshot(self.ix)
        else:
            cur.ph[name] = None
        if name == "recorded":
            self.n_recorded += 1
        if self.on_phase is not None:
            self.on_phase(self, name, cur)
        self._maybe_inject(name, cur.t)

    def _maybe_inject(self, name, t):
        inj = self.inject
        if inj and not self.injected and inj["phase"] == name and inj["step"] == t:
            self.injected = True
            if inj.get("base"):
                raise seams.InjectedAbort("injected at step %s phase %s" % (t, name))
            raise seams.InjectedFault("injected at step %s phase %s" % (t, name))

    def on_move_enter(self, comp, dest):
        if comp.parent_product is not self.prod and comp not in self.ix.comps:
            return
        self.move_depth += 1
        if self.move_depth == 1:
            ev = {
                "c": comp.ID,
                "from": _id(comp.placed_workplace) if comp.placed_workplace is not None else None,
                "to": _id(dest) if dest is not None else None,
                "working": any(int(t.state) == WORKING for t in comp.targeted_task_list),
                # a task of the component already holds workers (given to it earlier in this allocation pass): it starts
                # WORKING in this very step, at the place where the component is now
                "holding": [t.ID for t in comp.targeted_task_list if len(t.allocated_worker_list) > 0],
                "after_updated": bool(self.cur is not None and "updated" in self.cur.ph and "allocated" not in self.cur.ph),
            }
            if self.cur is not None and "recorded" not in self.cur.ph:
                self.cur.moves.append(ev)
            else:
                self.pre_moves.append(ev)

    def on_move_exit(self):
        if self.move_depth > 0:
            self.move_depth -= 1

    def on_sort(self, name, inp, a, k, out, exc):
        if self.cur is None:
            return
        rec = {"fn": name, "in": inp, "args": a, "kw": dict(k), "out": out, "exc": exc}
        if self.sort_keyfn is not None:
            self.sort_keyfn(self, rec)
        self.cur.sorts.append(rec)


def pdesy_frame(tb):
    """file:function of the innermost traceback frame that lies in the pDESy tree."""
    loc = None
    for fs in traceback.extract_tb(tb):
        if "/pDESy/" in fs.filename.replace("\\", "/"):
            loc = "%s:%s" % (fs.filename.rsplit("/", 1)[-1], fs.name)
    return loc


class Outcome(object):
    __slots__ = ("ok", "exc", "exc_type", "where", "msg", "injected", "value", "harness")

    def __init__(self):
        self.ok = True
        self.exc = None
        self.exc_type = None
        self.where = None
        self.msg = None
        self.injected = False
        self.value = None
        self.harness = False


class HarnessError(Exception):
    pass


class SutHang(Exception):
    """One pDESy API call did not return within CALL_LIMIT_S seconds of wall-clock time."""


CALL_LIMIT_S = 30.0
WARNINGS_AS_ERRORS = [False]


_HANG_SEEN = [False]


def _on_alarm(signum, frame):
    _HANG_SEEN[0] = True
    raise SutHang("API call still running after %.0f s" % CALL_LIMIT_S)


def call(fn, recorder=None):
    """Run ``fn()`` (one pDESy API call) with ``recorder`` active.  Returns an Outcome.

    An exception whose innermost frame is pDESy code is SUT behaviour; an InjectedFault is
    ours; anything raised from harness code is re-raised as HarnessError.  A call that does not
    return within CALL_LIMIT_S (normal calls take milliseconds) is interrupted and classified as
    SUT behaviour "SutHang" (non-termination), so a hang becomes a replayable violation, not a dead worker.
    """
    import signal
    import threading
    import warnings

    out = Outcome()
    prev = seams.CUR
    seams.CUR = recorder
    use_alarm = threading.current_thread() is threading.main_thread()
    if use_alarm:
        old_handler = signal.signal(signal.SIGALRM, _on_alarm)
        # once a call of this process was found not to terminate, later calls get a short leash (the verdict is in already)
        signal.setitimer(signal.ITIMER_REAL, CALL_LIMIT_S if not _HANG_SEEN[0] else 3.0)
    try:
        with warnings.catch_warnings():
            # (a user may run with warnings turned into errors: then the library's own warnings are exceptions raised inside it)
            warnings.simplefilter("error" if WARNINGS_AS_ERRORS[0] else "ignore")
            out.value = fn()
    except SutHang as e:
        out.ok = False
        out.exc = e
        out.exc_type = "SutHang"
        out.where = pdesy_frame(e.__traceback__) or "?"
        out.msg = str(e)
    except (seams.InjectedFault, seams.InjectedAbort) as e:
        out.ok = False
        out.injected = True
        out.exc = e
        out.exc_type = type(e).__name__
    except (KeyboardInterrupt, SystemExit, MemoryError):
        raise
    except Exception as e:
        tb = e.__traceback__
        frames = traceback.extract_tb(tb)
        last = frames[-1].filename.replace("\\", "/") if frames else ""
        where = pdesy_frame(tb)
        in_harness = "/dst/" in last and "/pDESy/" not in last and not getattr(e, "_verif_env", False)
        if where is None or in_harness:
            seams.CUR = prev
            raise HarnessError("harness exception: %r\n%s" % (e, "".join(traceback.format_tb(tb))))
        out.ok = False
        out.exc = e
        out.exc_type = type(e).__name__
        out.where = where
        out.msg = str(e)[:200]
    finally:
        if use_alarm:
            signal.setitimer(signal.ITIMER_REAL, 0)
            signal.signal(signal.SIGALRM, old_handler)
        seams.CUR = prev
    return out


def structure_dump(project):
    """The model as the user built it: every list of the public objects in its order (IDs), every map in its item order,
    every setting.  A run may change states and logs, never this."""
    def ids(xs):
        return [_id(x) for x in (xs or [])]

    p = project
    d = {"task_list": ids(p.workflow.task_list), "component_list": ids(p.product.component_list),
         "team_list": ids(p.organization.team_list), "workplace_list": ids(p.organization.workplace_list),
         "tasks": {}, "components": {}, "teams": {}, "workers": {}, "workplaces": {}, "facilities": {}}
    for t in p.workflow.task_list:
        d["tasks"][t.ID] = {
            "input_task_list": [[_id(a), int(k)] for a, k in t.input_task_list],
            "output_task_list": [[_id(a), int(k)] for a, k in t.output_task_list],
            "allocated_team_list": ids(t.allocated_team_list), "allocated_workplace_list": ids(t.allocated_workplace_list),
            "target_component": _id(t.target_component) if t.target_component is not None else None,
            "fixing_allocating_worker_id_list": _plain(t.fixing_allocating_worker_id_list),
            "fixing_allocating_facility_id_list": _plain(t.fixing_allocating_facility_id_list),
            "settings": [t.name, _plain(t.default_work_amount), _plain(t.work_amount_progress_of_unit_step_time), bool(t.need_facility),
                         bool(t.auto_task), _plain(t.default_progress), _plain(t.due_time), int(t.workplace_priority_rule),
                         int(t.worker_priority_rule), int(t.facility_priority_rule)],
        }
    for c in p.product.component_list:
        d["components"][c.ID] = {"child_component_list": ids(c.child_component_list), "parent_component_list": ids(c.parent_component_list),
                                 "targeted_task_list": ids(c.targeted_task_list), "settings": [c.name, _plain(c.space_size)]}
    for tm in p.organization.team_list:
        d["teams"][tm.ID] = {"worker_list": ids(tm.worker_list), "targeted_task_list": ids(tm.targeted_task_list),
                             "parent_team": _id(tm.parent_team) if getattr(tm, "parent_team", None) is not None else None}
        for w in tm.worker_list:
            d["workers"][str(w.ID) + "@" + str(tm.ID)] = {
                "workamount_skill_mean_map": [[k, _plain(v)] for k, v in w.workamount_skill_mean_map.items()],
                "workamount_skill_sd_map": [[k, _plain(v)] for k, v in w.workamount_skill_sd_map.items()],
                "facility_skill_map": [[k, _plain(v)] for k, v in w.facility_skill_map.items()],
                "absence_time_list": _plain(w.absence_time_list), "settings": [w.name, w.team_id, _plain(w.cost_per_time), bool(w.solo_working), w.main_workplace_id]}
    for wp in p.organization.workplace_list:
        d["workplaces"][wp.ID] = {"facility_list": ids(wp.facility_list), "targeted_task_list": ids(wp.targeted_task_list),
                                  "input_workplace_list": ids(wp.input_workplace_list), "output_workplace_list": ids(wp.output_workplace_list),
                                  "settings": [wp.name, _plain(wp.max_space_size)]}
        for f in wp.facility_list:
            d["facilities"][str(f.ID) + "@" + str(wp.ID)] = {
                "workamount_skill_mean_map": [[k, _plain(v)] for k, v in f.workamount_skill_mean_map.items()],
                "workamount_skill_sd_map": [[k, _plain(v)] for k, v in f.workamount_skill_sd_map.items()],
                "absence_time_list": _plain(f.absence_time_list), "settings": [f.name, f.workplace_id, _plain(f.cost_per_time), bool(f.solo_working)]}
    return d


def diff_attrs(a, b):
    """Set of 'kind.attr' names (top-level keys for scalars) in which two dumps differ."""
    out = set()
    for k in sorted(set(a) | set(b)):
        va, vb = a.get(k), b.get(k)
        if isinstance(va, dict) and isinstance(vb, dict):
            for oid in sorted(set(va) | set(vb)):
                ea, eb = va.get(oid, {}), vb.get(oid, {})
                if not isinstance(ea, dict) or not isinstance(eb, dict):
                    if ea != eb:
                        out.add(k)
                    continue
                for attr in sorted(set(ea) | set(eb)):
                    if ea.get(attr) != eb.get(attr):
                        out.add("%s.%s" % (k, attr))
        elif va != vb:
            out.add(k)
    return out
