"""Command line of the checks.  Exit codes: 0 held, 1 violation, 2 harness error/timeout."""
import argparse
import os
import sys
import traceback


def main(argv=None):
    ap = argparse.ArgumentParser()
    ap.add_argument("prop", nargs="?")
    ap.add_argument("--tier", default=os.environ.get("VERIF_TIER") or "quick", choices=["quick", "thorough"])
    ap.add_argument("--seed", type=int, default=None)
    ap.add_argument("--n", type=int, default=None)
    ap.add_argument("--workers", type=int, default=None)
    ap.add_argument("--wall", type=float, default=None, help="soft wall-clock cap in seconds")
    ap.add_argument("--repo", default=None)
    ap.add_argument("--replay", default=None)
    ap.add_argument("--selftest", action="store_true")
    ap.add_argument("--smoke", action="store_true")
    a = ap.parse_args(argv)
    if a.repo:
        os.environ["VERIF_REPO"] = a.repo
    seed = a.seed
    if seed is None:
        try:
            seed = int(os.environ.get("VERIF_SEED", "0"))
        except ValueError:
            seed = 0
    try:
        from . import env

        env.setup(a.repo)
        from . import campaign

        if a.replay:
            return campaign.replay(a.replay)
        if a.selftest:
            from . import selftest

            return selftest.main(smoke=a.smoke, seed=seed)
        if not a.prop:
            ap.error("property id required")
        wall = a.wall
        if wall is None:
            wall = 150.0 if a.tier == "quick" else 3300.0
        return campaign.check(a.prop.upper(), a.tier, seed, a.workers, a.n, wall)
    except SystemExit:
        raise
    except BaseException:
        sys.stdout.flush()
        sys.stderr.write("HARNESS-ERROR:\n" + traceback.format_exc())
        return 2


if __name__ == "__main__":
    sys.exit(main())
