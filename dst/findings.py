"""Known findings (committed file, never written at run time)."""
import fnmatch
import json
import os

from . import env

PATH = os.path.join(env.VERIF, "known_findings.json")


def load():
    if not os.path.exists(PATH):
        return []
    with open(PATH) as f:
        data = json.load(f)
    return data.get("findings", [])


def match(known, pid, key):
    """An *open* finding whose property matches and whose key pattern matches ``key``."""
    for k in known:
        if k.get("status") != "open":
            continue
        if k.get("property") != pid:
            continue
        for pat in k.get("keys", []):
            if fnmatch.fnmatchcase(key, pat):
                return k
    return None
