"""Observer-transparency self-test: the same specs executed with the unmodified pDESy classes and with every
module-level seam uninstalled (no observers, no sort wrappers, no in-memory open, real uuid/datetime) must give
dumps identical to the instrumented execution."""
import random

from . import build as B
from . import campaign, env, gen, scen, seams
from . import director as D


def run(n, base_seed):
    env.setup()
    mism = 0
    examples = []
    kinds_seen = {}
    for i in range(n):
        sd = campaign.seed_of(base_seed, "TRANSPARENCY", i)
        rng = random.Random(sd)
        p = gen.gen_profile(rng)
        m = gen.gen_model(rng, p)
        cfg = gen.gen_cfg(rng, p)
        ranks = gen.gen_ranks(rng, m)
        seams.install()
        seams.reset_run_state(sd)
        tr = scen.run_forward(m, ranks, cfg, want_snap=True, want_sorts=True)
        d1 = D.dump(tr.project)
        o1 = [tr.out.ok, tr.out.exc_type]
        seams.uninstall()
        try:
            b = B.build(m, None, plain=True)
            kw = scen.sim_kwargs(cfg)
            out = D.call(lambda: b.project.simulate(**kw))
            d2 = D.dump(b.project)
            o2 = [out.ok, out.exc_type]
        finally:
            seams.install()
        for (_, _, k) in m["deps"]:
            kinds_seen[k] = kinds_seen.get(k, 0) + 1
        diff = D.first_diff(d1, d2)
        if diff is not None or o1 != o2:
            mism += 1
            if len(examples) < 5:
                examples.append({"index": i, "diff": [str(x) for x in (diff or ())], "outcomes": [o1, o2]})
    return {"compared": n, "mismatches": mism, "examples": examples, "edge_kinds_seen": kinds_seen}
