"""Workload generator: swarm profile -> model -> configuration.  Pure functions of a random.Random.

Everything is drawn *before* a run starts; executing a spec draws nothing.
"""

FS, SS, FF, SF = 0, 1, 2, 3
KIND_NAME = {0: "FS", 1: "SS", 2: "FF", 3: "SF"}

DY_WORK = [0.0, 0.25, 0.5, 1.0, 1.0, 1.5, 2.0, 2.0, 3.0, 4.0, 5.0]
DY_SKILL = [0.25, 0.5, 1.0, 1.0, 1.0, 1.5, 2.0]
DY_COST = [0.0, 0.25, 1.0, 2.0, 2.5, 10.0]
DEC_WORK = [0.0, 0.1, 0.3, 0.7, 1.0, 1.1, 2.0, 2.5, 3.3]
DEC_SKILL = [0.1, 0.3, 0.7, 1.0, 1.1]
DEC_COST = [0.0, 0.1, 1.0, 3.3, 7.7]
SIZES = [0.5, 1.0, 1.0, 1.0, 2.0, 1.0, 1.0, 0.5, 2.0, 0.0]
CAPS = [0.0, 0.5, 1.0, 1.0, 1.5, 2.0, 3.0, 1.0, 2.0, float("inf")]
TIGHT_SIZES = [0.5, 1.0, 1.0, 1.0, 2.0, 1.0, 0.5, 1.000003, 0.500002]  # capacity contention: every component takes room, every workplace is small
DEC_SIZES = [0.2, 0.8, 0.3, 0.7, 0.1, 0.9, 0.4, 0.6]  # fractions that sum to a capacity only up to rounding (1.0 - 0.8 < 0.2)
TIGHT_CAPS = [0.5, 1.0, 1.0, 1.5, 2.0, 3.0]
N_TASK_W = [(1, 4), (2, 14), (3, 20), (4, 20), (5, 16), (6, 11), (7, 8), (8, 7)]


def wchoice(rng, pairs):
    tot = sum(w for _, w in pairs)
    x = rng.random() * tot
    for v, w in pairs:
        x -= w
        if x < 0:
            return v
    return pairs[-1][0]


def gen_profile(rng, focus=None):
    """Swarm profile: which features this run uses.  ``focus`` biases it for a property."""
    focus = focus or {}
    p = {}
    kinds = [k for k in (FS, SS, FF, SF) if rng.random() < 0.55]
    if not kinds or rng.random() < 0.25:
        kinds = [FS]
    p["kinds"] = kinds
    p["alphabet"] = "dyadic" if rng.random() < 0.7 else "decimal"
    p["auto"] = rng.random() < 0.4
    p["dp"] = rng.random() < 0.3
    p["comps"] = rng.random() < 0.5
    p["facilities"] = p["comps"] and rng.random() < 0.6
    p["nested"] = p["comps"] and rng.random() < 0.35
    p["conveyor"] = p["facilities"] and rng.random() < 0.4
    p["solo"] = rng.random() < 0.3
    p["fix"] = rng.random() < 0.25
    p["res_abs"] = rng.random() < 0.35
    p["proj_abs"] = rng.random() < 0.5
    p["task_rules"] = rng.random() < 0.4
    p["contention"] = rng.choice(["low", "mid", "high"])
    p["density"] = rng.choice([0.15, 0.3, 0.5])
    p["zero_skill"] = rng.random() < 0.4
    p["untargeted"] = rng.random() < 0.2
    p["auto_comp"] = rng.random() < 0.3
    p["mainwp"] = rng.random() < 0.4
    p["same_step"] = rng.random() < 0.4  # equal work amounts so linked tasks hit zero together
    p["shuffle_list"] = rng.random() < 0.35  # workflow.task_list not in dependency order
    p["dup_names"] = rng.random() < 0.12  # two tasks share a name (skills are keyed by task name)
    p["multi_edge"] = rng.random() < 0.15  # the same pair of tasks linked by two dependencies of different kinds
    p["multi_parent"] = rng.random() < 0.25  # (nested products) a component with two parents
    p["reg_shuffle"] = rng.random() < 0.3  # teams/workplaces register their targets in another order than the organization lists
    p["ctor_targets"] = rng.random() < 0.2  # a team gets its targets through the constructor (registered on the team side only)
    p["assign_style"] = rng.random() < 0.15  # workers built with defaults, skill maps filled item by item
    p["org_tree"] = rng.random() < 0.25  # parent_team / parent_workplace links (no effect on a run, part of the saved format)
    p["sd_zero"] = rng.random() < 0.2  # explicit standard-deviation entries of 0.0 (deterministic skills, other code path)
    p["empty_team"] = rng.random() < 0.06  # a team without workers
    p["assign_list"] = rng.random() < 0.15  # workflow built with `wf.task_list = [...]` (parent_workflow set lazily)
    p["extend_links"] = rng.random() < 0.2  # dependencies made with extend_input_task_list instead of append_input_task
    p["int_kinds"] = rng.random() < 0.1  # dependency kinds given as the plain integers 0..3 (what the saved format holds)
    p["late_register"] = rng.random() < 0.12  # some tasks are registered in the workflow before they are linked, others after
    p["wp_targets_any"] = rng.random() < 0.15  # a workplace also lists tasks that have no component (`wp.extend_targeted_task_list(workflow.task_list)`)
    p["same_group_ids"] = rng.random() < 0.08  # workplace IDs equal team IDs (IDs are unique per kind only)
    p["prefix_ids"] = rng.random() < 0.08  # resource IDs that contain each other as strings (w1, w10, w100)
    p["same_ids"] = rng.random() < 0.08  # facility IDs equal worker IDs (IDs are unique per kind only)
    p["wp_ctor_inputs"] = rng.random() < 0.25  # conveyor links handed to the workplace constructor (one-sided: no output lists)
    p.update(focus)
    if not p["comps"]:
        p["facilities"] = p["nested"] = p["conveyor"] = False
    if not p["facilities"]:
        p["conveyor"] = False
    return p


def _alpha(p):
    if p["alphabet"] == "dyadic":
        return DY_WORK, DY_SKILL, DY_COST
    return DEC_WORK, DEC_SKILL, DEC_COST


def gen_model(rng, p, n_tasks=None):
    WORK, SKILL, COST = _alpha(p)
    n = n_tasks or wchoice(rng, N_TASK_W)
    if p.get("big") and not n_tasks:
        n = rng.randint(9, 14)  # beyond the 8-slot set table: schedules are still one deterministic order per rank assignment
    same_work = rng.choice([1.0, 2.0, 0.5]) if p["same_step"] else None
    tasks = []
    for i in range(n):
        t = {"id": "t%d" % i, "work": rng.choice(WORK)}
        if same_work is not None and rng.random() < 0.6:
            t["work"] = same_work
        if p["auto"] and rng.random() < 0.25:
            t["auto"] = True
            t["rate"] = rng.choice(SKILL)
        if not t.get("auto") and rng.random() < 0.08:
            t["rate"] = rng.choice([0.5, 2.0, 0.25])  # work_amount_progress_of_unit_step_time on a task that is not automatic: not used
        if p["dp"] and rng.random() < 0.3:
            t["dp"] = rng.choice([0.5, 1.0, 0.25, 1.0])
        if rng.random() < 0.2:
            t["due"] = rng.randint(0, 12)
        if p["task_rules"]:
            if rng.random() < 0.6:
                t["wrule"] = rng.choice([-1, 0, 1, 2])
            if rng.random() < 0.6:
                t["frule"] = rng.choice([-1, 0, 1, 2])
            if rng.random() < 0.6:
                t["prule"] = rng.choice([0, 1])
        tasks.append(t)
    deps = []
    shape = rng.choice(["random", "random", "chain", "fan"])
    for j in range(1, n):
        for i in range(j):
            pr = p["density"]
            if shape == "chain":
                pr = 0.85 if i == j - 1 else 0.05
            elif shape == "fan":
                pr = 0.6 if i == 0 or j == n - 1 else 0.05
            if rng.random() < pr:
                deps.append([i, j, rng.choice(p["kinds"])])
    if p.get("multi_edge") and deps and len(p["kinds"]) > 1:
        a_, b_, k_ = rng.choice(deps)
        others = [k for k in p["kinds"] if k != k_]
        if others:
            deps.append([a_, b_, rng.choice(others)])
    comps = []
    if p["comps"]:
        nc = rng.randint(1, 4)
        for k in range(nc):
            comps.append({"id": "c%d" % k, "size": rng.choice(DEC_SIZES if (p["alphabet"] == "decimal" and rng.random() < 0.5) else
                                                              (TIGHT_SIZES if p.get("tight") else SIZES)), "children": []})
        if p["nested"]:
            for k in range(1, nc):
                if rng.random() < 0.6:
                    par = rng.randrange(0, k)
                    comps[par]["children"].append(k)
            if p.get("multi_parent"):
                for k in range(2, nc):
                    pars = [i for i in range(k) if k in comps[i]["children"]]
                    cand = [i for i in range(k) if i not in pars]
                    if pars and cand and rng.random() < 0.5:
                        comps[rng.choice(cand)]["children"].append(k)
        for t in tasks:
            if rng.random() < 0.65:
                if t.get("auto") and not p["auto_comp"]:
                    continue
                t["comp"] = rng.randrange(nc)
    if p.get("single_task_comps") and comps:
        # every component-bound task gets a component of its own (flat product)
        comps = []
        for t in tasks:
            if t.get("comp") is not None:
                comps.append({"id": "c%d" % len(comps), "size": rng.choice([0.8, 0.2, 0.9, 0.1, 0.2, 0.1, 0.0, 1.0] if p.get("dec_fit") else TIGHT_SIZES[:5]),
                              "children": []})
                t["comp"] = len(comps) - 1
    # organisation
    nt = wchoice(rng, [(1, 5), (2, 3), (3, 1)])
    cont = p["contention"]
    teams = []
    wid = 0
    for m in range(nt):
        if cont == "high":
            nw = 1
        elif cont == "mid":
            nw = rng.randint(1, 2)
        else:
            nw = rng.randint(1, 3)
        if nt == 1:
            targets = [i for i in range(n) if not (p["untargeted"] and rng.random() < 0.15)]
        else:
            targets = [i for i in range(n) if rng.random() < 0.6]
        workers = []
        for _ in range(nw):
            w = {"id": "w%d" % wid, "skills": {}, "fskills": {}, "cost": rng.choice(COST)}
            wid += 1
            for i in range(n):
                if i in targets:
                    if rng.random() < 0.75:
                        w["skills"]["t%d" % i] = rng.choice(SKILL)
                        if p["zero_skill"] and rng.random() < 0.12:
                            w["skills"]["t%d" % i] = 0.0
                elif rng.random() < 0.1:
                    w["skills"]["t%d" % i] = rng.choice(SKILL)
            if p["solo"] and rng.random() < 0.3:
                w["solo"] = True
            workers.append(w)
        teams.append({"id": "m%d" % m, "targets": targets, "workers": workers})
    # make most non-auto tasks servable (the unservable rest exercises the failure paths)
    for i, t in enumerate(tasks):
        if t.get("auto"):
            continue
        if rng.random() < 0.85:
            ok = any(
                i in tm["targets"] and w["skills"].get(t["id"], 0) > 0
                for tm in teams
                for w in tm["workers"]
            )
            if not ok:
                tm = rng.choice(teams)
                if i not in tm["targets"]:
                    tm["targets"].append(i)
                    tm["targets"].sort()
                rng.choice(tm["workers"])["skills"][t["id"]] = rng.choice(SKILL)
    wps = []
    if p["facilities"]:
        npl = rng.randint(1, 3) if not p.get("single_task_comps") else rng.choice([1, 1, 2])
        fid = 0
        comp_tasks = [i for i, t in enumerate(tasks) if t.get("comp") is not None]
        for k in range(npl):
            targets = [i for i in comp_tasks if rng.random() < 0.75]
            if p.get("wp_targets_any"):
                targets = sorted(set(targets) | set(i for i in range(n) if i not in comp_tasks and rng.random() < 0.5))
            facs = []
            for _ in range(rng.randint(1, 3 if cont == "low" else 2)):
                f = {"id": "f%d" % fid, "skills": {}, "cost": rng.choice(COST)}
                fid += 1
                for i in targets:
                    if rng.random() < 0.8:
                        f["skills"]["t%d" % i] = rng.choice(SKILL)
                        if p["zero_skill"] and rng.random() < 0.1:
                            f["skills"]["t%d" % i] = 0.0
                for i in comp_tasks:
                    if i not in targets and rng.random() < 0.15:
                        f["skills"]["t%d" % i] = rng.choice(SKILL)  # skilled for a task its workplace is not assigned to
                if p["solo"] and rng.random() < 0.3:
                    f["solo"] = True
                facs.append(f)
            wp = {"id": ("m%d" if p.get("same_group_ids") else "p%d") % k,
                  "cap": 1.0 if p.get("dec_fit") else rng.choice(TIGHT_CAPS if p.get("tight") else CAPS), "targets": targets, "inputs": [], "facs": facs}
            if p["conveyor"] and k > 0:
                wp["inputs"] = [i for i in range(k) if rng.random() < 0.5]
            wps.append(wp)
        if p.get("same_ids"):
            for wp in wps:
                for f in wp["facs"]:
                    f["name"] = f["id"]  # (worker facility skills are keyed by facility name)
                    f["id"] = "w" + f["id"][1:]
        allf = [f.get("name", f["id"]) for wp in wps for f in wp["facs"]]
        for tm in teams:
            for w in tm["workers"]:
                for f in allf:
                    if rng.random() < 0.8:
                        w["fskills"][f] = rng.choice([1.0, 1.0, 0.5, 0.0, -1.0]) if p["zero_skill"] else 1.0
                if p["mainwp"] and rng.random() < 0.6:
                    w["mainwp"] = rng.choice(wps)["id"]
        for i in comp_tasks:
            t = tasks[i]
            if not t.get("auto") and rng.random() < 0.6:
                t["nf"] = True
            elif t.get("auto") and rng.random() < 0.15:
                t["nf"] = True  # automatic AND facility-needing (an automatic curing step in a workplace): automatic wins
    elif p["comps"] and rng.random() < 0.3:
        # workplaces without facilities: placement only
        comp_tasks = [i for i, t in enumerate(tasks) if t.get("comp") is not None]
        wps.append({"id": "p0", "cap": rng.choice(CAPS), "targets": [i for i in comp_tasks if rng.random() < 0.8],
                    "inputs": [], "facs": []})
    if p.get("prefix_ids") and not p.get("same_ids"):
        k_ = 0
        for tm in teams:
            for w in tm["workers"]:
                w["id"] = "w1" + "0" * k_
                k_ += 1
        k_ = 0
        for wp in wps:
            for f in wp["facs"]:
                old_ = f.get("name", f["id"])
                f["id"] = "f1" + "0" * k_
                f["name"] = old_
                k_ += 1
    allw = [w["id"] for tm in teams for w in tm["workers"]]
    allf = [f["id"] for wp in wps for f in wp["facs"]]
    if p["fix"]:
        for t in tasks:
            if rng.random() < 0.25 and allw:
                t["fixw"] = sorted(rng.sample(allw, rng.randint(0, min(2, len(allw)))))
            if t.get("nf") and rng.random() < 0.25 and allf:
                t["fixf"] = sorted(rng.sample(allf, rng.randint(0, min(2, len(allf)))))
    if p["res_abs"]:
        for tm in teams:
            for w in tm["workers"]:
                if p.get("worker_abs_dense") and rng.random() < 0.7:
                    w["abs"] = [k for k in range(0, 12) if rng.random() < 0.4]  # comes and goes
                elif rng.random() < 0.45:
                    w["abs"] = gen_absence(rng, 14, rng.randint(1, 5))
        for wp in wps:
            for f in wp["facs"]:
                if rng.random() < (0.75 if p.get("fac_abs_dense") else 0.35):
                    f["abs"] = gen_absence(rng, 14, rng.randint(1, 4)) if not p.get("fac_abs_dense") else \
                        [k for k in range(0, 12) if rng.random() < 0.45]  # comes and goes: absent about every other step
    m = {"tasks": tasks, "deps": deps, "teams": teams, "comps": comps, "wps": wps}
    if p.get("org_tree"):
        for k in range(1, len(teams)):
            if rng.random() < 0.6:
                teams[k]["parent"] = rng.randrange(k)
        for k in range(1, len(wps)):
            if rng.random() < 0.6:
                wps[k]["parent"] = rng.randrange(k)
    if p.get("sd_zero"):
        for tm in teams:
            for w in tm["workers"]:
                if w["skills"] and rng.random() < 0.5:
                    w["sd"] = {k: 0.0 for k in list(w["skills"])[:2]}
        for wp in wps:
            for f in wp["facs"]:
                if f["skills"] and rng.random() < 0.5:
                    f["sd"] = {k: 0.0 for k in list(f["skills"])[:2]}
    if p.get("empty_team") and len(teams) < 3:
        teams.append({"id": "m%d" % len(teams), "targets": [i for i in range(n) if rng.random() < 0.3], "workers": []})
    if p.get("reg_shuffle"):
        reg = [["team", i] for i in range(len(teams))] + [["wp", i] for i in range(len(wps))]
        rng.shuffle(reg)
        m["reg_order"] = reg
    if p.get("ctor_targets") and teams:
        tm_ = rng.choice(teams)
        sub = [k for k in tm_["targets"] if rng.random() < 0.5]
        if sub:
            tm_["ctor_targets"] = sub
    if p.get("assign_style"):
        m["assign_style"] = True
    if p.get("dup_names") and n > 1:
        a, b = rng.sample(range(n), 2)
        tasks[b]["name"] = tasks[a].get("name", tasks[a]["id"])
    if p.get("assign_list"):
        m["assign_list"] = True
    if p.get("shuffle_list") and n > 1:
        order = list(range(n))
        rng.shuffle(order)
        m["order"] = order
    if p.get("int_kinds"):
        m["int_kinds"] = True
    if p.get("extend_links"):
        m["extend_links"] = True
        if rng.random() < 0.4:
            m["extend_iter"] = True
    if p.get("wp_ctor_inputs") and any(wp.get("inputs") for wp in wps):
        m["wp_ctor_inputs"] = True
    if p.get("late_register") and n > 1 and not m.get("assign_list"):
        late = [i for i in range(n) if rng.random() < 0.4]
        if late and len(late) < n:
            order = m.get("order") or list(range(n))
            m["order"] = [i for i in order if i not in late] + [i for i in order if i in late]
            m["late_register"] = late
    return m


def gen_absence(rng, horizon, k):
    """Absence list with the forced shapes: step 0, consecutive runs, beyond the end, duplicates."""
    out = set()
    r = rng.random()
    if r < 0.25:
        out.add(0)
    if r > 0.6:
        s = rng.randint(0, horizon)
        for d in range(rng.randint(2, 4)):
            out.add(s + d)
    for _ in range(k):
        out.add(rng.randint(0, horizon))
    out = sorted(out)
    if rng.random() < 0.2:
        out.append(horizon + rng.randint(5, 60))  # beyond the end
    if rng.random() < 0.1 and out:
        out.append(out[0])  # duplicate
        if rng.random() < 0.5:
            rng.shuffle(out)
    return out


def gen_cfg(rng, p, max_time=None):
    cfg = {
        "rule": rng.randrange(9) if rng.random() < 0.8 else 0,
        "absence": gen_absence(rng, 16, rng.randint(1, 6)) if p["proj_abs"] else [],
        "auto_flag": rng.random() < 0.5,
        "max_time": max_time or wchoice(rng, [(0, 0.3), (1, 0.4), (3, 1), (8, 2), (25, 3), (40, 6), (70, 2)]),
    }
    return cfg


def gen_ranks(rng, model, mode=None):
    """The schedule: hash ranks for tasks and components.

    'perm'  : a permutation of 0..n-1  -> every task set iterates in ascending rank (n <= 8)
    'wide'  : arbitrary distinct ints  -> some deterministic order incl. collisions/wrap-around
    """
    mode = mode or ("perm" if rng.random() < 0.8 else "wide")
    r = {}
    for group in (model["tasks"], model.get("comps", [])):
        n = len(group)
        if mode == "perm":
            vals = list(range(n))
            rng.shuffle(vals)
        else:
            vals = rng.sample(range(0, 4096), n)
        for g, v in zip(group, vals):
            r[g["id"]] = v
    return r


def eligible_workers(model, ti):
    """(team index, worker dict) pairs statically eligible for task ti (skill>0, team targets, fix list)."""
    t = model["tasks"][ti]
    out = []
    for tm in model["teams"]:
        if ti not in tm["targets"]:
            continue
        for w in tm["workers"]:
            if w["skills"].get(t.get("name", t["id"]), 0.0) > 1e-10:
                if t.get("fixw") is not None and w["id"] not in t["fixw"]:
                    continue
                out.append(w)
    return out


def gen_feasible(rng, p):
    """feasible-F family (DESIGN section 4): acyclic, no facility task, no component-bound auto
    task, every non-auto unfinished task has an eligible worker with a finite absence list, and for
    every task with an FF or SF input all workers eligible for it are eligible for no other task."""
    p = dict(p)
    p["facilities"] = False
    p["conveyor"] = False
    p["auto_comp"] = False
    p["untargeted"] = False
    p["dup_names"] = False  # the construction below reasons about eligibility per task
    p["prefix_ids"] = False  # (workers are added below with running numbers)
    m = gen_model(rng, p)
    tasks = m["tasks"]
    for t in tasks:
        t.pop("nf", None)
        t.pop("fixf", None)
        if t.get("auto"):
            t.pop("comp", None)
    m["wps"] = [wp for wp in m["wps"] if False]
    for tm in m["teams"]:
        for w in tm["workers"]:
            w["fskills"] = {}
            w.pop("mainwp", None)
    has_ffsf_in = set(j for (i, j, k) in m["deps"] if k in (FF, SF))
    WORK, SKILL, COST = _alpha(p)
    nextw = sum(len(tm["workers"]) for tm in m["teams"])
    # private workers for FF/SF-input tasks: strip every other worker's eligibility for them,
    # and give them one new dedicated worker in a dedicated team
    for j in sorted(has_ffsf_in):
        t = tasks[j]
        if t.get("auto"):
            continue
        for tm in m["teams"]:
            if j in tm["targets"]:
                tm["targets"].remove(j)
            for w in tm["workers"]:
                w["skills"].pop(t["id"], None)
        w = {"id": "w%d" % nextw, "skills": {t["id"]: rng.choice(SKILL)}, "fskills": {}, "cost": rng.choice(COST)}
        nextw += 1
        if p["res_abs"] and rng.random() < 0.4:
            w["abs"] = gen_absence(rng, 14, rng.randint(1, 4))
        if p["solo"] and rng.random() < 0.3:
            w["solo"] = True
        m["teams"].append({"id": "m%d" % len(m["teams"]), "targets": [j], "workers": [w]})
        if t.get("fixw") is not None:
            t["fixw"] = sorted(set(t["fixw"]) | {w["id"]})
    for i, t in enumerate(tasks):
        if t.get("auto") or i in has_ffsf_in:
            continue
        if not eligible_workers(m, i):
            cands = [tm for tm in m["teams"] if tm["workers"] and not any(set(tm["targets"]) & has_ffsf_in)]
            if not cands:
                w = {"id": "w%d" % nextw, "skills": {}, "fskills": {}, "cost": rng.choice(COST)}
                nextw += 1
                cands = [{"id": "m%d" % len(m["teams"]), "targets": [], "workers": [w]}]
                m["teams"].append(cands[0])
            tm = rng.choice(cands)
            if i not in tm["targets"]:
                tm["targets"].append(i)
                tm["targets"].sort()
            w = rng.choice(tm["workers"])
            w["skills"][t["id"]] = rng.choice(SKILL)
            if t.get("fixw") is not None:
                t["fixw"] = sorted(set(t["fixw"]) | {w["id"]})
    if p.get("all_auto"):
        # a project of automatic work only, in an organisation without a single worker
        for t in tasks:
            t["auto"] = True
            t.setdefault("rate", rng.choice(SKILL))
            t.pop("fixw", None)
            t.pop("comp", None)
        m["teams"] = [{"id": "m0", "targets": [i for i in range(len(tasks)) if rng.random() < 0.5], "workers": []}]
    if p.get("auto_private_wp"):
        # automatic tasks that work on a component of their own, in a workplace of their own that can always take it
        for i, t in enumerate(tasks):
            if t.get("auto") and rng.random() < 0.6:
                size = rng.choice(SIZES)
                m["comps"].append({"id": "c%d" % len(m["comps"]), "size": size, "children": []})
                t["comp"] = len(m["comps"]) - 1
                k = len(m["wps"])
                m["wps"].append({"id": "p%d" % k, "cap": rng.choice([size, size + 1.0, float("inf")]), "targets": [i], "inputs": [],
                                 "facs": [{"id": "f%d" % k, "skills": {t["id"]: rng.choice(SKILL)}, "cost": rng.choice(COST)}]})
    if m.get("reg_order"):
        reg = [["team", i] for i in range(len(m["teams"]))] + [["wp", i] for i in range(len(m["wps"]))]
        rng.shuffle(reg)
        m["reg_order"] = reg
    m.pop("wp_ctor_inputs", None)
    for tm in m["teams"]:
        tm.pop("ctor_targets", None)  # the feasibility construction edits team targets after the fact ...
    if p.get("ctor_targets"):
        # ... so constructor-side targets (registered on the team side only) are chosen afterwards
        cands_ = [tm for tm in m["teams"] if tm["targets"] and tm["workers"]]
        if cands_:
            tm_ = rng.choice(cands_)
            sub_ = [k for k in tm_["targets"] if rng.random() < 0.6]
            if sub_:
                tm_["ctor_targets"] = sub_
    return m


def make_infeasible(rng, m):
    """Turn one non-auto unfinished task of a feasible model unservable.  Returns (model, task index, how)."""
    import copy

    m = copy.deepcopy(m)
    cands = [i for i, t in enumerate(m["tasks"]) if not t.get("auto") and t.get("dp", 0.0) < 1.0 - 1e-10]
    if not cands:
        return None
    i = rng.choice(cands)
    t = m["tasks"][i]
    how = rng.choice(["zero_skill", "untarget", "fix"])
    if how == "zero_skill":
        for tm in m["teams"]:
            for w in tm["workers"]:
                nm = t.get("name", t["id"])
                if nm in w["skills"]:
                    w["skills"][nm] = 0.0
    elif how == "untarget":
        for tm in m["teams"]:
            if i in tm["targets"]:
                tm["targets"].remove(i)
    else:
        t["fixw"] = []
    return m, i, how


def append_task(m, task, rng=None):
    """Append a task to a generated model, keeping the optional workflow.task_list order consistent."""
    m["tasks"].append(task)
    i = len(m["tasks"]) - 1
    if m.get("order"):
        hi = len(m["order"]) - len(m.get("late_register") or [])  # stays in the block of tasks registered before linking
        pos = rng.randint(0, hi) if rng is not None else hi
        m["order"].insert(pos, i)
    return i
