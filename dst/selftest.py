"""Self-tests of the machinery.

--smoke (setup_cmd): import check + determinism of every property campaign on a small sample
  (same seed twice in one process, and again in a fresh interpreter under another PYTHONHASHSEED).
full: larger determinism sample at 1 and 16 workers + observer-transparency test; results are
  written to evidence/selftest.json.
"""
import json
import os
import subprocess
import sys
import time

from . import campaign, env

IDS = ["C%02d" % i for i in range(1, 21)]


def available():
    out = []
    for pid in IDS:
        if os.path.exists(os.path.join(env.VERIF, "dst", "props", pid.lower() + ".py")):
            out.append(pid)
    return out


def digests(pid, n, seed, workers):
    tot = campaign.run_campaign(pid, "quick", seed, workers=workers, n=n, want_digests=True)
    return sorted(tot["digests"]), tot


def child_digests(pids, n, seed, hashseed):
    envv = dict(os.environ)
    envv["PYTHONHASHSEED"] = str(hashseed)
    code = (
        "import sys, json; sys.path.insert(0, %r)\n"
        "from dst import env, selftest\n"
        "env.setup(%r)\n"
        "out = {}\n"
        "for pid in %r:\n"
        "    out[pid] = selftest.digests(pid, %d, %d, 1)[0]\n"
        "print('DIGESTS=' + json.dumps(out))\n" % (env.VERIF, env.REPO, pids, n, seed)
    )
    p = subprocess.run([sys.executable, "-c", code], env=envv, capture_output=True, text=True, timeout=1800)
    for line in p.stdout.splitlines():
        if line.startswith("DIGESTS="):
            return {k: [tuple(x) for x in v] for k, v in json.loads(line[8:]).items()}
    raise RuntimeError("child failed: %s\n%s" % (p.stdout[-2000:], p.stderr[-2000:]))


def main(smoke=False, seed=0):
    t0 = time.time()
    env.setup()
    pids = available()
    n = 60 if smoke else 2000
    report = {"properties": pids, "n_per_property": n, "mismatches": [], "harness_errors": []}
    ok = True
    first = {}
    for pid in pids:
        a, _ = digests(pid, n, seed, 1 if smoke else 16)
        b, _ = digests(pid, n, seed, 4 if smoke else 1)
        first[pid] = a
        if a != b:
            ok = False
            bad = [x for x, y in zip(a, b) if x != y][:5]
            report["mismatches"].append({"property": pid, "kind": "same-seed-twice", "examples": bad})
            print("SELFTEST-FAIL determinism %s: %s" % (pid, bad))
    for hs in ([12345] if smoke else [0, 12345]):
        ch = child_digests(pids, n if smoke else min(n, 600), seed, hs)
        for pid in pids:
            a = first[pid][: len(ch[pid])]
            if [tuple(x) for x in a] != ch[pid]:
                ok = False
                bad = [(x, y) for x, y in zip(a, ch[pid]) if tuple(x) != tuple(y)][:5]
                report["mismatches"].append({"property": pid, "kind": "fresh-interpreter PYTHONHASHSEED=%d" % hs,
                                             "examples": bad})
                print("SELFTEST-FAIL determinism(fresh interpreter, hashseed %d) %s: %s" % (hs, pid, bad))
    if not smoke:
        from . import transparency

        tr = transparency.run(3000, seed)
        report["transparency"] = tr
        if tr["mismatches"]:
            ok = False
            print("SELFTEST-FAIL observer transparency: %s" % tr["examples"][:3])
    report["wall_s"] = round(time.time() - t0, 2)
    report["ok"] = ok
    if not smoke:
        with open(os.path.join(env.VERIF, "evidence", "selftest.json"), "w") as f:
            json.dump(report, f, indent=1, sort_keys=True, default=str)
    print("selftest %s: %d properties x %d seeds, determinism %s, %.1fs"
          % ("smoke" if smoke else "full", len(pids), n, "OK" if ok else "FAILED", time.time() - t0))
    return 0 if ok else 2
