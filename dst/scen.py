"""Scenario execution helpers shared by the property modules."""
from . import build as B
from . import director as D
from . import env, seams


class Trace(object):
    """One executed simulate()/backward_simulate() call with everything the oracles need."""

    def __init__(self):
        self.model = None
        self.cfg = None
        self.built = None
        self.project = None
        self.ix = None
        self.rec = None
        self.out = None
        self.absence = None


def setup_run(seed=0):
    env.setup()
    seams.install()
    seams.reset_run_state(seed)


def sim_kwargs(cfg):
    M = env.M
    kw = dict(
        task_priority_rule=M.brule.TaskPriorityRuleMode(cfg.get("rule", 0)),
        absence_time_list=list(cfg.get("absence", [])),
        perform_auto_task_while_absence_time=bool(cfg.get("auto_flag", False)),
        max_time=cfg.get("max_time", 40),
    )
    if cfg.get("unit_time") is not None:
        kw["unit_time"] = cfg["unit_time"]
    if cfg.get("error_tol") is not None:
        kw["error_tol"] = cfg["error_tol"]
    if cfg.get("_absence_obj") is not None:
        kw["absence_time_list"] = cfg["_absence_obj"]  # the very list object the caller holds (e.g. project.absence_time_list)
    if "init_state" in cfg:
        kw["initialize_state_info"] = bool(cfg["init_state"])
    if "init_log" in cfg:
        kw["initialize_log_info"] = bool(cfg["init_log"])
    return kw


def simulate(project, cfg, inject=None, want_snap=True, want_sorts=False, sort_keyfn=None,
             on_phase=None, snap_phases=None, backward=None):
    """Run project.simulate (or backward_simulate) under a fresh Recorder."""
    seams.attach(project)
    rec = D.Recorder(project, inject=inject, want_snap=want_snap, want_sorts=want_sorts,
                     sort_keyfn=sort_keyfn, on_phase=on_phase, snap_phases=snap_phases)
    kw = sim_kwargs(cfg)
    if backward is not None:
        kw["considering_due_time_of_tail_tasks"] = bool(backward.get("due", False))
        kw["reverse_log_information"] = bool(backward.get("reverse", True))
        out = D.call(lambda: project.backward_simulate(**kw), rec)
    else:
        out = D.call(lambda: project.simulate(**kw), rec)
    return rec, out


def run_forward(model, ranks, cfg, **kw):
    tr = Trace()
    tr.model, tr.cfg = model, cfg
    tr.built = B.build(model, ranks)
    tr.project = tr.built.project
    tr.absence = set(cfg.get("absence", []))
    tr.rec, tr.out = simulate(tr.project, cfg, **kw)
    tr.ix = tr.rec.ix
    return tr


def save_load(project, path="mem:save.json", ranks=None):
    """write_simple_json -> fresh BaseProject().read_simple_json -> re-attach observers and ranks.

    Returns (new_project, outcome_write, outcome_read)."""
    M = env.M
    ow = D.call(lambda: project.write_simple_json(path))
    if not ow.ok:
        return None, ow, None
    new = M.bp.BaseProject()
    orr = D.call(lambda: new.read_simple_json(path))
    if not orr.ok:
        return None, ow, orr
    seams.attach(new)
    seams.rerank(new, ranks or {})
    return new, ow, orr


# ---- sub-project support (C16 / C18 / C20) ----------------------------------------------------
def prepare_subproject(sub, seed=0):
    """Build, simulate and save the sub-project described by ``sub`` = {"model","cfg","ranks","file"}.

    Returns (project, outcome_of_simulate, outcome_of_write)."""
    b = B.build(sub["model"], sub.get("ranks"))
    p = b.project
    out = None
    if sub.get("simulate", True):
        if sub.get("backward") is not None:
            rec, out = simulate(p, sub["cfg"], want_snap=False, backward=sub["backward"])
        else:
            rec, out = simulate(p, sub["cfg"], want_snap=False)
    p._verif_time_before_edit = p.time
    if sub.get("edit") and out is not None and out.ok:
        # the finished result is edited (absence steps inserted into its logs) before it is saved
        D.call(lambda: p.insert_absence_time_list(list(sub["edit"])))
    ow = D.call(lambda: p.write_simple_json(sub["file"]))
    return p, out, ow


def configure_subtasks(built, model):
    """Configure every BaseSubProjectTask of a built parent from its saved sub-project result."""
    outs = []
    for t, tj in zip(built.tasks, model["tasks"]):
        sub = tj.get("sub")
        if sub is None or not sub.get("configure", True):
            continue
        o = D.call(lambda: t.set_all_attributes_from_json(remove_absence_time_list=bool(sub.get("remove_abs", False))))
        outs.append(o)
        if o.ok:
            D.call(lambda: t.set_work_amount_progress_of_unit_step_time(built.project.unit_timedelta))
    return outs
