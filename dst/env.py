"""Import the pDESy working tree (never the site-packages copy) and expose its modules.

Every entry point calls ``env.setup(repo)`` first.  ``REPO`` defaults to /repo and can be
pointed at a scratch copy (sensitivity tests) with ``--repo`` / ``VERIF_REPO``.
"""
import os
import sys

sys.dont_write_bytecode = True
os.environ.setdefault("MPLBACKEND", "Agg")

VERIF = os.path.dirname(os.path.dirname(os.path.abspath(__file__)))
REPO = None
M = None  # namespace of pDESy modules, filled by setup()


class _NS(object):
    pass


def setup(repo=None):
    """Import pDESy from ``repo`` and return a namespace with its modules."""
    global REPO, M
    if M is not None:
        return M
    repo = os.path.abspath(repo or os.environ.get("VERIF_REPO") or "/repo")
    REPO = repo
    # make sure nothing else named pDESy is importable before the working tree
    sys.path[:] = [p for p in sys.path if os.path.abspath(p or ".") != repo]
    sys.path.insert(0, repo)
    import warnings

    warnings.filterwarnings("ignore")
    import pDESy  # noqa

    here = os.path.abspath(pDESy.__file__)
    if not here.startswith(repo + os.sep):
        sys.stderr.write(
            "HARNESS-ERROR: pDESy imported from %s, not from %s\n" % (here, repo)
        )
        sys.exit(2)
    import pDESy.model.base_project as bp
    import pDESy.model.base_workflow as bwf
    import pDESy.model.base_task as bt
    import pDESy.model.base_subproject_task as bst
    import pDESy.model.base_component as bc
    import pDESy.model.base_product as bpr
    import pDESy.model.base_organization as bo
    import pDESy.model.base_team as btm
    import pDESy.model.base_worker as bw
    import pDESy.model.base_workplace as bwp
    import pDESy.model.base_facility as bf
    import pDESy.model.base_priority_rule as brule

    ns = _NS()
    ns.bp, ns.bwf, ns.bt, ns.bst, ns.bc, ns.bpr = bp, bwf, bt, bst, bc, bpr
    ns.bo, ns.btm, ns.bw, ns.bwp, ns.bf, ns.brule = bo, btm, bw, bwp, bf, brule
    ns.modules = [bp, bwf, bt, bst, bc, bpr, bo, btm, bw, bwp, bf, brule]
    M = ns
    return ns


def repo_rev():
    """git HEAD + dirty-diff hash of REPO, for replay files (best effort)."""
    import hashlib
    import subprocess

    try:
        head = subprocess.run(
            ["git", "-C", REPO, "rev-parse", "HEAD"], capture_output=True, text=True, timeout=20
        ).stdout.strip()
        diff = subprocess.run(
            ["git", "-C", REPO, "diff", "HEAD", "--", "pDESy"], capture_output=True, timeout=20
        ).stdout
        return {"head": head, "dirty": hashlib.sha256(diff).hexdigest()[:12] if diff else ""}
    except Exception:
        return {"head": "?", "dirty": "?"}
