"""C06 - no avoidable waiting: work starts, proceeds and ends as early as the rules allow."""
from .. import gen as G
from . import common as C
from . import c02
from .common import NONE, READY, WORKING, FINISHED, SNAME, Static, TOL
from .. import director as D

ID = "C06"
LEVEL = "exploration"
DESIGN_REF = "DESIGN.md section 5, C06"
TECHNIQUE = "deterministic simulation: seeded contention/absence search, work-conservation invariants on live snapshots"
RULE = ("seeded models (general and feasible-F family) under contention, solo flags, fixed IDs, per-resource absences and "
        "all task rules; at every working step: (a) satisfied gates => not NONE, (b) component-free auto task not READY "
        "after allocation, (c) no FREE worker eligible for a READY/WORKING no-facility task that can still accept it, "
        "(d) no FREE facility + FREE eligible worker pair for a single-task component's facility task, (e) zero remaining "
        "=> FINISHED next step. Non-trivial = >=1 working step with a FREE worker and a READY/WORKING non-auto task; "
        "distinct = scenario digests")
ASSUMPTIONS = ["idle-worker clause (c) only for tasks needing no facility; pair clause (d) only for components carrying a single task",
               "models <= 8 tasks"]
LEVEL_TEXT = ("Seeded exploration of the work-conservation clauses at every working step of every run, with predicates "
              "(gates open, eligible, can still accept) computed independently from the model data and live snapshots.")
LEVEL_NOTE = "Trusted: independent eligibility / can-accept predicates; refusals are monotone within one greedy allocation pass; sampling evidence only."
PROBES = ["free_worker_with_open_task", "gate_opened_FS", "gate_opened_SS", "ss_pred_finished_before_successor_ready",
          "auto_task_started", "idle_refused_solo", "idle_refused_ineligible", "pair_candidate_checked", "unplaced_component_checked"]


def budget(tier):
    return 14000 if tier == "quick" else 2500000


def gen(rng, tier):
    focus = {"contention": rng.choice(["mid", "high", "low"])}
    if rng.random() < 0.5:
        focus["kinds"] = [k for k in (0, 1, 2, 3) if rng.random() < 0.6] or [1]
    if rng.random() < 0.4:
        focus.update(comps=True, facilities=True)
    if rng.random() < 0.4:
        focus["solo"] = True
    if rng.random() < 0.4:
        focus["res_abs"] = True
    if rng.random() < 0.3:
        # several worker-facility pairs on one task, facilities that come and go while it is worked on
        focus.update(comps=True, facilities=True, contention="low", res_abs=True, fac_abs_dense=True, solo=False, fix=False, nested=False,
                     single_task_comps=True, zero_skill=False)
        if rng.random() < 0.4:
            focus["dec_fit"] = True  # component sizes that fill a workplace exactly, up to rounding (0.8 + 0.2, 0.9 + 0.1)
    feasible = rng.random() < 0.35 and not focus.get("fac_abs_dense")
    spec = C.maybe_from_json(rng, C.maybe_history(rng, C.forward_spec(rng, tier, focus, feasible=feasible), 0.25, reload_prob=0.4))
    if rng.random() < 0.06:
        # simulate(error_tol=...) with a value that is not a positive tolerance (the argument is documented as a numerical guard)
        spec["cfg"]["error_tol"] = rng.choice([0.0, 0.0, -1e-3, 1e-14])
    tms_ = spec["model"].get("teams", [])
    if len(tms_) >= 2 and rng.random() < 0.1:
        # teams built empty whose workers join through add_worker; some of them still name the team they came from
        for ti_, mj_ in enumerate(tms_):
            if rng.random() < 0.7 and not mj_.get("ctor_targets"):
                mj_["add_worker"] = True
                for wj_ in mj_["workers"]:
                    if rng.random() < 0.6:
                        wj_["stale_team_id"] = rng.choice([x_["id"] for j_, x_ in enumerate(tms_) if j_ != ti_])
    return spec


def extra_candidates(spec):
    return C.history_candidates(spec)


def can_accept_worker(st, T, tid, wid):
    ws = T[tid][2]
    if any(st.worker[w].get("solo") for w in ws if w in st.worker):
        return False
    if st.worker[wid].get("solo") and len(ws) > 0:
        return False
    return True


def holding(T, assigned):
    """tasks a resource holds that are not FINISHED (an entry for a FINISHED task is a leftover: such a resource is idle)"""
    return [t for t in assigned if t not in T or T[t][0] != FINISHED]


def check_trace(res, tr):
    st = Static(tr.model)
    rec = tr.rec
    started_prev = {tid: st.exempt(tid) for tid in st.order}  # started by the previous recorded instant (FINISHED from the start counts)
    finished_prev = {tid: st.exempt(tid) for tid in st.order}
    prevR = rec.init_snap["T"] if rec.init_snap is not None else None
    if prevR is not None:
        for tid in st.order:  # a continuation starts from what the first call left
            if prevR[tid][0] in (WORKING, FINISHED, 3):
                started_prev[tid] = True
    nontrivial = False
    for s in rec.steps:
        k = s.t
        working = k not in tr.absence
        U = s.ph.get("updated")
        if U is None:
            break
        UT = U["T"]
        if working:
            for tid in st.order:
                if st.exempt(tid):
                    continue
                ok = True
                kinds = set()
                for (p, kind) in st.preds[tid]:
                    if kind == G.FS:
                        kinds.add("FS")
                        if UT[p][0] != FINISHED:
                            ok = False
                            break
                    elif kind == G.SS:
                        kinds.add("SS")
                        if not started_prev[p]:
                            ok = False
                            break
                if ok and UT[tid][0] == NONE:
                    ss_fin = any(kind == G.SS and UT[p][0] == FINISHED for (p, kind) in st.preds[tid])
                    tag = "+".join(sorted(kinds)) or "nodep"
                    if ss_fin:
                        tag += ".SSpredFinished"
                    res.add("gate", "C06.gate_open_but_NONE." + tag,
                            "working step %d: all FS predecessors of %s are FINISHED and all SS predecessors have started, "
                            "but %s is still NONE" % (k, tid, tid), k)
                if ok and prevR is not None and prevR[tid][0] == NONE and UT[tid][0] != NONE:
                    for kk in kinds:
                        res.count("gate_opened_" + kk)
                if any(kind == G.SS and UT[p][0] == FINISHED for (p, kind) in st.preds[tid]) and prevR is not None \
                        and prevR[tid][0] == NONE:
                    res.count("ss_pred_finished_before_successor_ready")
        A = s.ph.get("allocated")
        if A is None:
            break
        AT = A["T"]
        if working:
            for tid in st.order:
                if st.auto(tid) and tid not in st.task_comp:
                    if AT[tid][0] == READY:
                        res.add("auto", "C06.auto_task_waits_in_READY", "working step %d: automatic task %s (no component) is READY after allocation" % (k, tid), k)
                    if AT[tid][0] == WORKING and UT[tid][0] == READY:
                        res.count("auto_task_started")
            free_ws = [w for w in st.worker_order if A["W"][w][0] == D.FREE]
            open_tasks = [t for t in st.order if AT[t][0] in (READY, WORKING) and not st.auto(t)]
            if free_ws and open_tasks:
                nontrivial = True
                res.count("free_worker_with_open_task")
            for w in free_ws:
                if holding(AT, A["W"][w][1]):
                    continue  # FREE but holding an unfinished task: C03's business
                for tid in open_tasks:
                    if st.nf(tid):
                        continue
                    if not st.eligible_w(w, tid):
                        res.count("idle_refused_ineligible")
                        continue
                    if not can_accept_worker(st, AT, tid, w):
                        res.count("idle_refused_solo")
                        continue
                    res.add("idle", "C06.idle_worker." + SNAME.get(AT[tid][0]),
                            "working step %d: worker %s is FREE although task %s (%s, workers %s) is eligible for it and can accept it"
                            % (k, w, tid, SNAME.get(AT[tid][0]), list(AT[tid][2])), k)
            # (d) worker-facility pairs for facility tasks of single-task components
            for tid in open_tasks:
                if not st.nf(tid):
                    continue
                cid = st.task_comp.get(tid)
                if cid is None or len(st.comp_tasks[cid]) != 1:
                    continue
                placed = A["C"][cid][1]
                if placed is None and AT[tid][0] == READY and not AT[tid][2] and not st.parents.get(cid) and not st.children.get(cid):
                    # the component is nowhere although its only task is READY: placing it is part of the allocation.  Claimed when
                    # every workplace that could host the task (targets it, has a skilled facility) had room for the component
                    # throughout this allocation (occupancy at its start and at its end taken together: a component moves at most
                    # once per step) and offers an idle eligible pair.  An unplaced component may enter a workplace with inputs.
                    size = st.comps[cid].get("size", 1.0)
                    hosts = [wid_ for wid_ in st.wp_order if tid in st.wp_targets[wid_]
                             and any(st.f_skill(f_["id"], tid) > TOL for f_ in st.wp[wid_]["facs"])]
                    all_ok = bool(hosts)
                    witness = None
                    for wid_ in hosts:
                        # (who is there: by the components' own reports, at the start and at the end of the allocation together)
                        occ = set(c_ for c_ in st.comp_order if (U["C"][c_][1] == wid_ or A["C"][c_][1] == wid_)
                                  and not (not st.parents.get(c_) and not st.children.get(c_) and st.comp_tasks[c_]
                                           and all(UT[t_][0] == FINISHED for t_ in st.comp_tasks[c_])))  # (a finished flat component has left)
                        used = sum(st.comps[c_].get("size", 1.0) for c_ in occ if c_ in st.comps)
                        if not (st.wp[wid_].get("cap", 1.0) - used > size - 1e-8 + 1e-9):
                            all_ok = False
                            break
                        pair = None
                        for f in [x["id"] for x in st.wp[wid_]["facs"]]:
                            if A["F"][f][0] != D.FREE or holding(AT, A["F"][f][1]) or not st.eligible_f(f, tid):
                                continue
                            for w in free_ws:
                                if holding(AT, A["W"][w][1]) or not st.eligible_w(w, tid) or st.w_fskill(w, f) <= TOL:
                                    continue
                                pair = (f, w)
                                break
                            if pair:
                                break
                        if pair is None:
                            all_ok = False
                            break
                        witness = (wid_, pair)
                    res.count("unplaced_component_checked")
                    if all_ok and witness is not None:
                        res.add("idle_pair", "C06.idle_pair.component_not_placed",
                                "working step %d: component %s of READY facility task %s is placed nowhere although workplace %s has room for it "
                                "and its facility %s and worker %s are both FREE and eligible" % (k, cid, tid, witness[0], witness[1][0], witness[1][1]), k)
                    continue
                if placed is None or placed not in st.wp:
                    continue
                ws, fs = AT[tid][2], AT[tid][3]
                if any(st.worker[x].get("solo") for x in ws if x in st.worker) or any(st.fac[x].get("solo") for x in fs if x in st.fac):
                    continue
                for f in [x["id"] for x in st.wp[placed]["facs"]]:
                    if A["F"][f][0] != D.FREE or holding(AT, A["F"][f][1]):
                        continue
                    if not st.eligible_f(f, tid):
                        continue
                    if st.fac[f].get("solo") and len(fs) > 0:
                        continue
                    for w in free_ws:
                        if holding(AT, A["W"][w][1]):
                            continue
                        res.count("pair_candidate_checked")
                        if not st.eligible_w(w, tid) or st.w_fskill(w, f) <= TOL:
                            continue
                        if st.worker[w].get("solo") and len(ws) > 0:
                            continue
                        key = "C06.idle_pair"
                        if st.parents.get(cid):
                            key = "C06.idle_pair.nested_component_with_ancestor"
                        res.add("idle_pair", key, "working step %d: facility %s and worker %s are both FREE although facility task %s "
                                "(placed at %s, holding %s/%s) could use the pair" % (k, f, w, tid, placed, list(ws), list(fs)), k)
        R = s.ph.get("recorded")
        if R is None:
            break
        RT = R["T"]
        for tid in st.order:
            if RT[tid][0] in (WORKING, FINISHED, 3):
                started_prev[tid] = True
        prevR = RT
    return nontrivial


def run(spec):
    tr = C.run_forward(spec)
    tr.exact = spec.get("profile", {}).get("alphabet") == "dyadic"
    res = C.base_result(tr)
    nt = check_trace(res, tr)
    # (e) zero remaining => FINISHED at the very next step (shared oracle with C02, reported under C06)
    sub = C.campaign.Result()
    c02.check_trace(sub, tr, clause_prefix="C06")
    for v in sub.violations:
        if v["clause"] == "finish_late":
            res.add(v["clause"], v["key"], v["msg"], v["step"])
    res.nontrivial = bool(nt)
    return C.finish(res, tr)
