"""C18 - editing absence steps out of or into finished logs keeps all logs aligned."""
import copy

from .. import build as B
from .. import director as D
from .. import gen as G, scen, seams
from . import common as C
from . import c09

ID = "C18"
LEVEL = "exploration"
DESIGN_REF = "DESIGN.md section 5, C18"
TECHNIQUE = "deterministic simulation, stateful: seeded histories of remove/insert log edits with adversarial index lists on simulated projects, alignment oracle after every operation"
RULE = ("seeded simulated projects (components, facilities, optional sub-project task, with/without absences) followed by a random "
        "sequence of remove_absence_time_list()/insert_absence_time_list(idx) calls whose index lists contain 0, duplicates, "
        "already-present steps, indices >= length and unsorted order; after every call: no exception, every per-step log of every "
        "object changed by the same number of entries, project.time == common length, inserted entries are zero-cost/no-WORKING/"
        "no-progress, insert-then-remove on an absence-free result restores every log, process-global state unchanged. "
        "Non-trivial = >=1 edit actually changed log lengths; distinct = scenario digests")
ASSUMPTIONS = ["unit_time = 1 (time counts steps)", "models <= 8 tasks"]
LEVEL_TEXT = ("Seeded stateful exploration of log-edit histories on really simulated projects; alignment, content of inserted steps "
              "and the insert/remove round trip are checked after every operation.")
LEVEL_NOTE = "Trusted: log_lengths() enumerates every per-step log attribute of the model; sampling evidence only."
PROBES = ["op_insert", "op_remove", "insert_step0", "insert_beyond_end", "insert_duplicate_in_list", "insert_already_present",
          "roundtrip_checked", "multi_insert_roundtrip_checked", "with_subproject_task", "with_facilities", "remove_with_beyond_end", "result_of_backward_simulation", "result_made_in_two_legs"]


def budget(tier):
    return 3000 if tier == "quick" else 1000000


def gen_idx(rng, n):
    k = rng.randint(1, 4)
    out = [rng.randint(0, max(1, n + 1)) for _ in range(k)]
    r = rng.random()
    if r < 0.25:
        out.append(0)
    if r > 0.75:
        out.append(n + rng.randint(0, 5))
    if rng.random() < 0.15 and out:
        out.append(out[0])
    if rng.random() < 0.5:
        out.sort()
    return out


def gen(rng, tier):
    focus = {}
    if rng.random() < 0.5:
        focus.update(comps=True, facilities=True)
    focus["proj_abs"] = rng.random() < 0.5
    spec = C.forward_spec(rng, tier, focus, max_time=rng.choice([12, 25, 40]))
    if rng.random() < 0.2:
        # a sub-project task in the parent
        subp = G.gen_profile(rng, {"facilities": False, "comps": False})
        subm = G.gen_feasible(rng, subp)
        subcfg = G.gen_cfg(rng, subp, max_time=200)
        spec["sub"] = {"model": subm, "cfg": subcfg, "file": "mem:sub0.json"}
        m = spec["model"]
        i = G.append_task(m, {"id": "t%d" % len(m["tasks"]), "work": 1.0, "sub": {"file": "mem:sub0.json", "unit_s": 60, "remove_abs": rng.random() < 0.5}}, rng)
        if i > 0 and rng.random() < 0.5:
            m["deps"].append([rng.randrange(i), i, 0])
        spec["ranks"] = G.gen_ranks(rng, m)
    ops = []
    n_guess = 8
    for _ in range(rng.randint(1, 5)):
        if rng.random() < 0.4:
            ops.append({"op": "remove"})
        else:
            ops.append({"op": "insert", "steps": gen_idx(rng, n_guess)})
    spec["ops"] = ops
    if rng.random() < 0.15:
        spec["backward"] = {"due": rng.random() < 0.3, "reverse": rng.random() < 0.8}  # the edited result comes from a backward simulation
    elif spec.get("sub") is None and rng.random() < 0.12:
        # an absence-free result made in two legs: cut off at step k under a calendar whose absence steps all lie at or after k,
        # then continued (state and logs kept) without any absence step
        k = rng.randint(1, 8)
        spec["legs"] = {"k": k, "extra": sorted(set(k + rng.randint(0, 8) for _ in range(rng.randint(1, 3))))}
        spec["cfg"]["absence"] = []
    return spec


def extra_candidates(spec):
    if spec.get("legs") is not None:
        c = dict(spec)
        c.pop("legs")
        yield c
    if spec.get("backward") is not None:
        c = dict(spec)
        c.pop("backward")
        yield c
    ops = spec.get("ops", [])
    for i in range(len(ops)):
        c = dict(spec)
        c["ops"] = ops[:i] + ops[i + 1:]
        yield c
    for i, op in enumerate(ops):
        if op["op"] == "insert" and len(op["steps"]) > 1:
            for j in range(len(op["steps"])):
                c = dict(spec)
                c["ops"] = copy.deepcopy(ops)
                del c["ops"][i]["steps"][j]
                yield c
    if spec.get("sub") is not None:
        c = copy.deepcopy(spec)
        c.pop("sub")
        m = c["model"]
        idx = [i for i, t in enumerate(m["tasks"]) if t.get("sub")]
        from .. import shrink
        for i in reversed(idx):
            if len(m["tasks"]) > 1:
                m = shrink.drop_task(m, i)
        c["model"] = m
        shrink.fix_ranks(c)
        if not any(t.get("sub") for t in m["tasks"]):
            yield c


def common_len(lens):
    vals = set(lens.values())
    return vals.pop() if len(vals) == 1 else None


def describe_mismatch(before, after):
    deltas = {}
    for k in after:
        d = after[k] - before.get(k, 0)
        deltas.setdefault(d, []).append(k)
    parts = []
    for d, ks in sorted(deltas.items()):
        kinds = sorted(set("%s.%s" % (k[0], k[2]) for k in ks))
        parts.append("%+d: %s" % (d, kinds[:6]))
    return "; ".join(parts)


def mismatch_tag(before, after):
    deltas = {}
    for k in after:
        d = after[k] - before.get(k, 0)
        deltas.setdefault(d, set()).add("%s.%s" % (k[0], k[2]))
    if len(deltas) <= 1:
        return None
    # name the minority group(s)
    groups = sorted(deltas.items(), key=lambda kv: (len(kv[1]), kv[0]))
    minority = sorted(groups[0][1])
    return "+".join(minority)[:120]


def run(spec):
    scen.setup_run(spec.get("seed", 0))
    res = C.campaign.Result()
    res.count("runs")
    if spec.get("sub") is not None:
        res.count("with_subproject_task")
        sp, so, sw = scen.prepare_subproject(spec["sub"], spec.get("seed", 0))
    b = B.build(spec["model"], spec.get("ranks"))
    if spec.get("sub") is not None:
        scen.configure_subtasks(b, spec["model"])
    p = b.project
    if spec.get("backward") is not None:
        res.count("result_of_backward_simulation")
        rec, out = scen.simulate(p, spec["cfg"], want_snap=False, backward=spec["backward"])
    elif spec.get("legs") is not None and spec["legs"]["k"] < spec["cfg"].get("max_time", 0) and not spec["cfg"].get("absence"):
        res.count("result_made_in_two_legs")
        rec, out = scen.simulate(p, dict(spec["cfg"], max_time=spec["legs"]["k"], absence=list(spec["legs"]["extra"])), want_snap=False)
        if out.ok:
            rec, out = scen.simulate(p, dict(spec["cfg"], init_state=False, init_log=False), want_snap=False)
    else:
        rec, out = scen.simulate(p, spec["cfg"], want_snap=False)
    res.steps = rec.n_recorded
    ix = D.index(p)
    if ix.facs:
        res.count("with_facilities")
    if not out.ok:
        res.count("sut_exception_in_simulate")
        res.digest = D.digest(D.dump(p))
        return res
    g0 = c09.globals_digest()
    changed = False
    n_run = len(p.cost_list)
    absence_free = not any(0 <= a < n_run for a in spec["cfg"].get("absence", []))
    base_dump = None  # logs at the last moment the result was absence-free; only inserts have happened since
    if absence_free:
        base_dump = D.dump(p, ix, live=False)
        base_dump.pop("absence_time_list", None)
    import random as _random
    coin = _random.Random(spec.get("seed", 0) ^ 0x5EED)
    for oi, op in enumerate(spec.get("ops", [])):
        before = D.log_lengths(ix)
        n0 = common_len(before)
        time0 = p.time
        abs0 = list(p.absence_time_list)
        if n0 is None or time0 != n0:
            break  # already misaligned: reported by the op that caused it
        if op["op"] == "remove":
            res.count("op_remove")
            if any(a >= n0 for a in abs0):
                res.count("remove_with_beyond_end")
            o = D.call(lambda: p.remove_absence_time_list())
            what = "remove_absence_time_list() with absence_time_list=%s" % abs0
            tagop = "remove"
        else:
            steps = list(op["steps"])
            res.count("op_insert")
            new = [s for s in steps if s not in abs0]
            if 0 in new:
                res.count("insert_step0")
            if any(s >= n0 for s in new):
                res.count("insert_beyond_end")
            if len(set(steps)) != len(steps):
                res.count("insert_duplicate_in_list")
            if any(s in abs0 for s in steps):
                res.count("insert_already_present")
            dumpb = D.dump(p, ix, live=False) if absence_free else None
            o = D.call(lambda: p.insert_absence_time_list(list(steps)))
            what = "insert_absence_time_list(%s) on a %d-step result" % (steps, n0)
            tagop = "insert"
        if not o.ok:
            cls = ""
            if tagop == "insert":
                cls = ".step0" if 0 in new else ""
            res.add("no_error", "C18.%s_raises.%s@%s%s" % (tagop, o.exc_type, o.where, cls), "%s raised %s(%s)" % (what, o.exc_type, o.msg), None)
            break
        after = D.log_lengths(ix)
        n1 = common_len(after)
        if after != before:
            changed = True
        if n1 is None:
            flags = []
            if tagop == "insert":
                if any(s >= n0 for s in new):
                    flags.append("beyond_end")
            else:
                if any(a >= n0 for a in abs0):
                    flags.append("beyond_end")
                if len(set(abs0)) != len(abs0):
                    flags.append("dup")
            res.add("aligned", "C18.%s_misaligns.%s%s" % (tagop, mismatch_tag(before, after), ("." + "+".join(flags)) if flags else ""),
                    "%s changed the logs by different amounts: %s" % (what, describe_mismatch(before, after)), None)
            break
        if p.time != n1:
            flags = []
            if tagop == "remove":
                if any(a >= n0 for a in abs0):
                    flags.append("beyond_end")
                if len(set(abs0)) != len(abs0):
                    flags.append("dup")
            else:
                if any(s >= n0 for s in new):
                    flags.append("beyond_end")
            res.add("time", "C18.%s_time%s" % (tagop, ("." + "+".join(flags)) if flags else ""),
                    "%s: all logs now have %d entries but project.time=%d (before: %d entries, time %d)" % (what, n1, p.time, n0, time0), None)
            break
        if tagop == "remove":
            absence_free = True
            if base_dump is not None and o.ok:
                # everything inserted since the result was last absence-free has been removed again
                res.count("multi_insert_roundtrip_checked")
                dnow = D.dump(p, ix, live=False)
                dnow.pop("absence_time_list", None)
                diff = D.first_diff(base_dump, dnow)
                if diff is not None:
                    res.add("roundtrip", "C18.roundtrip.after_several_inserts",
                            "ops %s: after inserting steps into an absence-free result (possibly in several calls) and removing them, the logs "
                            "differ from before in %s; first at %s: %r vs %r" % (spec.get("ops")[: oi + 1], sorted(D.diff_attrs(base_dump, dnow))[:6],
                                                                                 diff[0], diff[1], diff[2]), None)
                    break
            base_dump = D.dump(p, ix, live=False)
            base_dump.pop("absence_time_list", None)
        else:
            absence_free = absence_free and not any(True for s_ in new if 0 <= s_)  # becomes true again after the round-trip remove below
        if tagop == "insert":
            # which indices are the inserted ones
            marks = [False] * n0
            for s in sorted(new):
                if s < len(marks):
                    marks.insert(s, True)
            if len(marks) == n1:
                for i, mk in enumerate(marks):
                    if not mk:
                        continue
                    for kind, objs in (("worker", ix.workers), ("facility", ix.facs), ("team", ix.teams), ("workplace", ix.wps),
                                       ("organization", [p.organization]), ("project", [p])):
                        for g in objs:
                            if g.cost_list[i] != 0:
                                res.add("inserted", "C18.inserted_step_has_cost." + kind, "%s: inserted step %d has cost %r at %s level" % (what, i, g.cost_list[i], kind), i)
                    for kind, objs in (("worker", ix.workers), ("facility", ix.facs)):
                        for r in objs:
                            if int(r.state_record_list[i]) == D.R_WORKING:
                                res.add("inserted", "C18.inserted_step_has_WORKING." + kind, "%s: %s %s is WORKING at inserted step %d" % (what, kind, r.ID, i), i)
                    # the inserted entries of the two sides of the allocation history tell the same story
                    for kind, objs, attr in (("worker", ix.workers, "allocated_worker_id_record"), ("facility", ix.facs, "allocated_facility_id_record")):
                        for r in objs:
                            mine = sorted(r.assigned_task_id_record[i] or [])
                            theirs = sorted(t.ID for t in ix.tasks if r.ID in (getattr(t, attr)[i] or []))
                            if mine != theirs:
                                res.add("inserted", "C18.inserted_step_allocation_logs_disagree.%s%s" % (kind, ".step0" if i == 0 else ""),
                                        "%s: at inserted step %d %s %s is logged on tasks %s, the tasks that log it are %s" % (what, i, kind, r.ID, mine, theirs), i)
                    for t in ix.tasks:
                        prev = t.remaining_work_amount_record_list[i - 1] if i > 0 else t.default_work_amount * (1.0 - t.default_progress)
                        if t.remaining_work_amount_record_list[i] != prev:
                            res.add("inserted", "C18.inserted_step_has_progress", "%s: remaining work of %s at inserted step %d is %r, previous entry %r"
                                    % (what, t.ID, i, t.remaining_work_amount_record_list[i], prev), i)
                        pass
                    for c_ in ix.comps:
                        if int(c_.state_record_list[i]) == D.WORKING:
                            res.add("inserted", "C18.inserted_step_component_WORKING", "%s: component %s is logged WORKING at inserted step %d" % (what, c_.ID, i), i)
                    for t in ix.tasks:
                        if int(t.state_record_list[i]) == D.WORKING:
                            res.add("inserted", "C18.inserted_step_task_WORKING", "%s: task %s is logged WORKING at inserted step %d" % (what, t.ID, i), i)
            if dumpb is not None and coin.random() < 0.5:
                # immediate round trip on an absence-free result (otherwise the inserts accumulate until the next remove op)
                o2 = D.call(lambda: p.remove_absence_time_list())
                res.count("roundtrip_checked")
                if not o2.ok:
                    res.add("no_error", "C18.remove_raises.%s@%s" % (o2.exc_type, o2.where), "remove after %s raised %s(%s)" % (what, o2.exc_type, o2.msg), None)
                    break
                absence_free = True
                dumpa = D.dump(p, ix, live=False)
                dumpa.pop("absence_time_list", None)
                dumpb.pop("absence_time_list", None)
                diff = D.first_diff(dumpb, dumpa)
                if diff is not None:
                    flags = []
                    if 0 in new:
                        flags.append("step0")
                    if any(s >= n0 for s in new):
                        flags.append("beyond_end")
                    if len(set(new)) != len(new):
                        flags.append("dup")
                    attrs = sorted(D.diff_attrs(dumpb, dumpa))
                    res.add("roundtrip", "C18.roundtrip%s" % (("." + "+".join(flags)) if flags else ".in_range"),
                            "%s then remove_absence_time_list() does not restore the logs: differs in %s, first at %s: %r vs %r"
                            % (what, attrs[:6], diff[0], diff[1], diff[2]), None)
                    break
        g = c09.globals_digest()
        if g != g0:
            res.add("global", "C18.global_state_changed." + tagop, "%s changed process-global state of pDESy" % what, None)
            g0 = g
    res.nontrivial = changed
    res.digest = D.digest(D.dump(p))
    return res
