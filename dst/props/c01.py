"""C01 - task dependencies (FS/SS/FF/SF) are never violated; task lifecycle only advances."""
from .. import gen as G
from . import common as C
from .common import NONE, READY, WORKING, FINISHED, RANK, SNAME, Static

ID = "C01"
LEVEL = "exploration"
DESIGN_REF = "DESIGN.md section 5, C01"
RULE = ("seeded random models (1-8 tasks, any mix of FS/SS/FF/SF, teams/skills/absences/auto tasks/default "
        "progress), random task rule, absence list, auto flag and set-iteration schedule; oracle on the live "
        "state at every phase of every step plus the state log. Non-trivial = model has >=1 dependency edge "
        "and the run simulated >=2 steps; distinct = distinct (model, config, schedule) digests")
ASSUMPTIONS = [
    "live state is observed through subclassed collaborators at four instants of each step; a change that "
    "is made and undone between two instants is invisible",
    "models have <= 8 tasks",
]
PROBES = ["edge_FS", "edge_SS", "edge_FF", "edge_SF", "held_at_zero_FF", "held_at_zero_SF", "absence_hides_working",
          "exempt_task", "external_predecessor_checked"]


def budget(tier):
    return 8000 if tier == "quick" else 2500000


def gen(rng, tier):
    focus = {}
    if rng.random() < 0.6:
        ks = [k for k in (0, 1, 2, 3) if rng.random() < 0.6] or [rng.choice([1, 2, 3])]
        focus["kinds"] = ks
    if rng.random() < 0.5:
        focus["density"] = 0.5
    spec = C.gen_edit(rng, C.maybe_prelude_backward(rng, C.maybe_dep_edit(rng, C.maybe_history(rng, C.forward_spec(rng, tier, focus), 0.3), 0.3), 0.1))
    if spec.get("history") is not None and rng.random() < 0.3:
        spec["history"]["charts_between"] = True  # the chart-data helpers are called between the two calls
    if rng.random() < 0.08 and not spec.get("edit"):
        spec["cfg"]["unit_time"] = rng.choice([2, 3])  # the clock advances by 2 or 3 per step; the absence list names times
    if rng.random() < 0.1 and not spec.get("edit"):
        m_ = spec["model"]
        n0_ = len(m_["tasks"])
        i_ = G.append_task(m_, {"id": "tsub", "work": rng.choice([1.0, 2.0, 3.0]), "rate": rng.choice([0.5, 1.0]), "sub": {"file": None, "unit_s": 60}}, rng)
        for a_ in range(n0_):
            if rng.random() < 0.3:
                m_["deps"].append([a_, i_, rng.choice(spec["profile"]["kinds"])])
        spec["ranks"]["tsub"] = max(spec["ranks"].values()) + 1
        if spec.get("history") is not None and spec.get("prelude_backward") is None and not spec["history"].get("org_edit") and rng.random() < 0.6:
            spec["history"].update(reload=True, state=False, log=rng.random() < 0.5, k=rng.randint(1, 8))
    if rng.random() < 0.1 and not (spec.get("history") or {}).get("reload") and spec.get("prelude_backward") is None:
        # a predecessor that is not an element of the simulated workflow (a task of another project): its state is what it is
        n = len(spec["model"]["tasks"])
        spec["model"]["ext_preds"] = [[rng.randrange(n), rng.choice([0, 1, 2, 3]), rng.choice([0, 0, 1, 2, -1])]
                                      for _ in range(rng.randint(1, 2))]
    if rng.random() < 0.06 and not any(spec.get(k_) for k_ in ("history", "edit", "prelude_backward")) and not spec["model"].get("ext_preds") \
            and spec["cfg"].get("unit_time", 1) == 1 and not any(t_.get("sub") for t_ in spec["model"]["tasks"]):
        # a run made in two parts: cut off at step k and saved; restarted from the file with new logs (and absence steps of its
        # own) and saved again; the log of the second part is appended to the project of the first part
        k = rng.randint(1, 8)
        spec["cfg"]["absence"] = [a for a in spec["cfg"].get("absence", []) if a < k]
        spec["appended"] = {"k": k, "absence2": G.gen_absence(rng, 10, rng.randint(0, 3))}
    if rng.random() < 0.08 and not any(spec.get(k_) for k_ in ("history", "edit", "prelude_backward", "appended")) \
            and spec["cfg"].get("unit_time", 1) == 1 and not any(t_.get("sub") for t_ in spec["model"]["tasks"]):
        # the registered absence steps are deleted from the finished logs again (several steps, early and late ones)
        ab = spec["cfg"].get("absence") or []
        if len(ab) < 2:
            ab = G.gen_absence(rng, 12, rng.randint(2, 5))
        spec["cfg"]["absence"] = ab
        spec["remove"] = True
    return spec


def extra_candidates(spec):
    if spec.get("remove"):
        c = dict(spec)
        c.pop("remove")
        yield c
    if spec.get("appended") is not None:
        c = dict(spec)
        c.pop("appended")
        yield c
    for c in C.history_candidates(spec):
        yield c
    for c in C.edit_candidates(spec):
        yield c
    ep = spec["model"].get("ext_preds")
    if ep:
        for i in range(len(ep)):
            c = dict(spec)
            c["model"] = dict(spec["model"])
            c["model"]["ext_preds"] = ep[:i] + ep[i + 1:]
            yield c




def check_trace(res, tr):
    st = Static(tr.model)
    rec = tr.rec
    for (a, b, k) in tr.model["deps"]:
        res.count("edge_" + G.KIND_NAME[k])
    started = {tid: False for tid in st.order}
    prev = {}
    hist = getattr(tr, "history", None)
    # "FINISHED from the start" is defined for a full initialisation; a continuation (state kept) starts from whatever
    # the first call left, and an appended re-run (state reset, log kept) is judged by the same rule as a fresh run
    check_exempt = hist is None or hist["state"]
    off = getattr(tr, "log_offset", 0)
    if hist is not None and not hist["state"] and getattr(tr, "first_snap", None) is not None:
        # continuation: what the first call left is the previous state (it must not move backward) and counts as history
        left = getattr(tr, "pre_reload_snap", None) or tr.first_snap  # (a state that changes on its way through a file moved, too)
        for tid in st.order:
            ps = left["T"][tid][0] if tid in left["T"] else tr.first_snap["T"][tid][0]
            prev[tid] = ps
            if ps in (WORKING, FINISHED, 3):
                started[tid] = True
    for tid in st.order:
        if st.exempt(tid):
            res.count("exempt_task")
    ext = {}
    for n_, (si, xk, xstate) in enumerate(tr.model.get("ext_preds", [])):
        x = tr.built.ext[n_]
        if int(x.state) == xstate:  # (a run that changed the outsider's state is judged by nothing here)
            ext.setdefault(st.order[si], []).append((si, xk, xstate))
    for label, t, ph, sn in C.walk(rec):
        T = sn["T"]
        for tid in st.order:
            s = T[tid][0]
            if s in (WORKING, FINISHED, 3):
                started[tid] = True
        for tid in st.order:
            s = T[tid][0]
            if st.exempt(tid):
                if s != FINISHED and check_exempt:
                    res.add("exempt_finished", "C01.exempt_not_finished",
                            "task %s has default progress >= 1 but is %s at %s" % (tid, SNAME.get(s, s), label), t)
                continue
            for (p, k) in st.preds[tid]:
                ps = T[p][0]
                if k == G.FS:
                    if s != NONE and ps != FINISHED:
                        res.add("FS", "C01.dep.FS", "%s is %s at %s while FS predecessor %s is %s"
                                % (tid, SNAME.get(s, s), label, p, SNAME.get(ps, ps)), t)
                elif k == G.SS:
                    if s != NONE and not started[p]:
                        res.add("SS", "C01.dep.SS", "%s is %s at %s but SS predecessor %s has never started"
                                % (tid, SNAME.get(s, s), label, p), t)
                elif k == G.FF:
                    if s == FINISHED and ps != FINISHED:
                        res.add("FF", "C01.dep.FF", "%s is FINISHED at %s while FF predecessor %s is %s"
                                % (tid, label, p, SNAME.get(ps, ps)), t)
                    if s == WORKING and T[tid][1] < 1e-10 and ps != FINISHED:
                        res.count("held_at_zero_FF")
                elif k == G.SF:
                    if s == FINISHED and not started[p]:
                        res.add("SF", "C01.dep.SF", "%s is FINISHED at %s but SF predecessor %s has never started"
                                % (tid, label, p), t)
                    if s == WORKING and T[tid][1] < 1e-10 and not started[p]:
                        res.count("held_at_zero_SF")
            for (xs, xk, xstate) in ext.get(tid, ()):
                # predecessor outside the workflow: nobody updates it, the gates read its (constant) state
                res.count("external_predecessor_checked")
                x_started = xstate in (WORKING, FINISHED, 3)
                bad = None
                if xk == G.FS and s != NONE and xstate != FINISHED:
                    bad = "is %s" % SNAME.get(s, s)
                elif xk == G.SS and s != NONE and not x_started:
                    bad = "is %s" % SNAME.get(s, s)
                elif xk == G.FF and s == FINISHED and xstate != FINISHED:
                    bad = "is FINISHED"
                elif xk == G.SF and s == FINISHED and not x_started:
                    bad = "is FINISHED"
                if bad:
                    res.add(G.KIND_NAME[xk], "C01.dep.%s.predecessor_outside_workflow" % G.KIND_NAME[xk],
                            "%s %s at %s while its %s predecessor, a task that is not registered in this workflow, is %s"
                            % (tid, bad, label, G.KIND_NAME[xk], SNAME.get(xstate, xstate)), t)
            if tid in prev and RANK.get(s, 2) < RANK.get(prev[tid], 2):
                res.add("monotone", "C01.monotone.%s_to_%s" % (SNAME.get(prev[tid]), SNAME.get(s)),
                        "%s went from %s back to %s at %s" % (tid, SNAME.get(prev[tid]), SNAME.get(s), label), t)
            prev[tid] = s
    # log view: entry k == display(live state at 'recorded' of step k)
    steps = C.full_steps(rec)
    for tid in st.order:
        task = tr.ix.task[tid]
        log = [int(x) for x in task.state_record_list][off:]
        if len(log) != len(steps):
            # alignment is C08's business; compare the common prefix only
            pass
        for i, s in enumerate(steps[: len(log)]):
            live = s.ph["recorded"]["T"][tid][0]
            working = s.t not in tr.absence
            exp = C.display_task(live, working)
            if not working and live == WORKING:
                res.count("absence_hides_working")
            if log[i] != exp:
                res.add("log_view", "C01.log_view", "state log of %s at step %d is %s, live state was %s (%s step)"
                        % (tid, s.t, SNAME.get(log[i], log[i]), SNAME.get(live, live),
                           "working" if working else "absence"), s.t)
                break
        # the log itself only moves forward apart from the absence display
        for i in range(1, len(log)):
            a, b = log[i - 1], log[i]
            if RANK.get(b, 2) < RANK.get(a, 2):
                absence_flip = (a == WORKING and b == READY and i < len(steps) and steps[i].t in tr.absence)
                if not absence_flip:
                    res.add("log_monotone", "C01.log_monotone", "state log of %s goes %s -> %s at index %d"
                            % (tid, SNAME.get(a, a), SNAME.get(b, b), i), i)
                    break


def check_edited_logs(res, tr, marks, absence_before):
    """After absence steps were inserted into the finished logs, every task's state log still only moves forward
    (WORKING may be shown as READY at absence steps, inserted or original)."""
    absent_idx = set()
    orig = 0
    for i, mk in enumerate(marks):
        if mk:
            absent_idx.add(i)
        else:
            if orig in absence_before:
                absent_idx.add(i)
            orig += 1
    for t in tr.ix.tasks:
        log = [int(x) for x in t.state_record_list]
        for i in range(1, len(log)):
            a, b = log[i - 1], log[i]
            if RANK.get(b, 2) < RANK.get(a, 2):
                if a == WORKING and b == READY and i in absent_idx:
                    continue
                res.add("edit", "C01.after_insert_absence.log_moves_backward.%s_to_%s" % (SNAME.get(a), SNAME.get(b)),
                        "after insert_absence_time_list(%s): state log of %s goes %s -> %s at index %d (%s)"
                        % (tr.edit, t.ID, SNAME.get(a, a), SNAME.get(b, b), i, "inserted step" if marks[i] else ("after an inserted step" if marks[i - 1] else "original steps")), i)
                return


def check_appended(res, spec):
    """Part 1 (cut off at k, saved), part 2 (restarted from the file with new logs, saved), part 2 appended to part 1: in the
    stitched logs a task falls back only from WORKING to READY and only at a step the project registers as an absence step."""
    from .. import build as B, scen, env, seams
    from .. import director as D
    ap = spec["appended"]
    scen.setup_run(spec.get("seed", 0))
    b = B.build(spec["model"], spec.get("ranks"))
    p = b.project
    rec1, o1 = scen.simulate(p, dict(spec["cfg"], max_time=ap["k"]), want_snap=False)
    if not (o1.ok and D.call(lambda: p.write_simple_json("mem:c01a.json")).ok):
        return
    r = env.M.bp.BaseProject()
    if not D.call(lambda: r.read_simple_json("mem:c01a.json")).ok:
        return
    seams.attach(r)
    seams.rerank(r, spec.get("ranks") or {})
    rec2, o2 = scen.simulate(r, dict(spec["cfg"], absence=list(ap["absence2"]), init_state=False, init_log=True), want_snap=False)
    if not (o2.ok and D.call(lambda: r.write_simple_json("mem:c01b.json")).ok):
        return
    n1 = len(p.cost_list)
    reg1, reg2 = list(p.absence_time_list), list(r.absence_time_list)
    if not D.call(lambda: p.append_project_log_from_simple_json("mem:c01b.json")).ok:
        return
    res.count("appended_logs_checked")
    exp = sorted(reg1 + [n1 + a for a in reg2])
    got = sorted(p.absence_time_list)
    if got != exp:
        res.add("appended", "C01.after_append_log.registered_steps",
                "part 1 (%d steps, registered absence steps %s) + appended part 2 (registered %s): project.absence_time_list is %s, the "
                "absence steps of the stitched logs are %s" % (n1, reg1, reg2, got, exp), None)
        return
    registered = set(got)
    for t in p.workflow.task_list:
        log = [int(x) for x in t.state_record_list]
        for i in range(1, len(log)):
            a_, b_ = log[i - 1], log[i]
            if RANK.get(b_, 2) < RANK.get(a_, 2) and not (a_ == WORKING and b_ == READY and i in registered):
                res.add("appended", "C01.after_append_log.log_moves_backward.%s_to_%s" % (SNAME.get(a_), SNAME.get(b_)),
                        "stitched log of %s goes %s -> %s at index %d (part 1 has %d steps; registered absence steps %s)"
                        % (t.ID, SNAME.get(a_, a_), SNAME.get(b_, b_), i, n1, got), i)
                return p
    return p


def run(spec):
    tr = C.run_forward(spec)
    res = C.base_result(tr)
    check_trace(res, tr)
    if spec.get("appended") is not None and tr.out.ok:
        check_appended(res, spec)
    res.nontrivial = bool(tr.model["deps"]) and tr.rec.n_recorded >= 2
    if spec.get("edit") and tr.out.ok:
        tr.edit = spec["edit"]
        o, marks = C.apply_edit(tr, spec["edit"])
        res.count("edit_runs")
        if o.ok and len(marks) == len(tr.project.cost_list):
            check_edited_logs(res, tr, marks, tr.absence)
            C.check_registered(res, tr, "C01")
    if spec.get("remove") and tr.out.ok and not spec.get("edit") and getattr(tr, "history", None) is None:
        from .. import director as D
        res.count("remove_runs")
        o = D.call(lambda: tr.project.remove_absence_time_list())
        if o.ok and not list(tr.project.absence_time_list):
            # no registered absence step is left: no log entry may fall back any more
            n_ = len(tr.project.cost_list)
            for t in tr.ix.tasks:
                log = [int(x) for x in t.state_record_list]
                bad = [i for i in range(1, len(log)) if RANK.get(log[i], 2) < RANK.get(log[i - 1], 2)]
                if bad:
                    res.add("edit", "C01.after_remove_absence.log_moves_backward",
                            "simulate with absence list %s, then remove_absence_time_list() (project.absence_time_list is empty, %d steps "
                            "left): state log of %s is %s" % (spec["cfg"].get("absence"), n_, t.ID, [SNAME.get(x, x) for x in log][:16]), None)
                    break
    return C.finish(res, tr)

TECHNIQUE = "deterministic simulation: seeded model/schedule/absence search, live-state invariant at every phase of every step"
LEVEL_TEXT = ("Seeded exploration: thousands (quick) to millions (thorough) of random models over all four dependency "
              "kinds, run under random schedules and absence faults; the dependency gates and lifecycle monotonicity are "
              "checked on the live state at four instants of every step and against the state log. Evidence, not proof.")
LEVEL_NOTE = ("Trusted: the harness observers (subclassed collaborators) and the model generator; models <= 8 tasks; "
              "a clean run is sampling evidence only.")
