"""C13 - component placement respects location, capacity, conveyor and site rules."""
from .. import director as D
from . import common as C
from .common import NONE, READY, WORKING, FINISHED, SNAME, Static

ID = "C13"
LEVEL = "exploration"
DESIGN_REF = "DESIGN.md section 5, C13"
TECHNIQUE = "deterministic simulation: seeded products/workplaces under space pressure; placement invariants on live snapshots, per-event move observation through a component subclass, and the ID logs"
RULE = ("seeded products (flat and nested), workplaces with capacities smaller than demand, conveyor links, several components per "
        "workplace and several tasks per component, both workplace rules, absences; live oracles at 'updated'/'allocated'/'recorded' "
        "of every step (one workplace per component, workplace list <=> component.placed_workplace, used space by top-most placed "
        "components <= capacity), per-event oracles on every set_placed_workplace call (conveyor origin, <=1 relocation per step, "
        "never while a task of the component is WORKING), finished top-level components leave, allocated facilities belong to the "
        "workplace of the task's component; same on the ID logs. Non-trivial = >=1 relocation or capacity refusal happened; "
        "distinct = scenario digests")
ASSUMPTIONS = ["moves are observed through BaseComponent.set_placed_workplace (the only way the library changes a placement)",
               "models <= 8 tasks, <= 4 components, <= 3 workplaces"]
LEVEL_TEXT = ("Seeded exploration under space pressure; every placement change is observed as an event and every step's live state and "
              "logs are checked against the location, capacity, conveyor and site rules.")
LEVEL_NOTE = "Trusted: harness observers and the component subclass that reports moves; sampling evidence only."
PROBES = ["placements", "relocations", "capacity_full_refusal", "conveyor_target", "nested_product", "multi_task_component",
          "finished_component_left", "facility_site_checked", "multi_component_workplace"]


def budget(tier):
    return 14000 if tier == "quick" else 2000000


def gen(rng, tier):
    focus = {"comps": True, "facilities": rng.random() < 0.85}
    if rng.random() < 0.4:
        focus["nested"] = True
    else:
        focus["nested"] = rng.random() < 0.2
    if rng.random() < 0.5:
        focus["conveyor"] = True
    if rng.random() < 0.4:
        focus["task_rules"] = True
    if rng.random() < (0.7 if focus["nested"] else 0.4):
        focus["tight"] = True
    spec = C.maybe_from_json(rng, C.maybe_history(rng, C.forward_spec(rng, tier, focus), 0.3))
    if rng.random() < 0.1 and len(spec["model"]["wps"]) >= 2:
        for wp_ in spec["model"]["wps"]:
            wp_["name"] = "shop"  # workplaces that share a name (only IDs are unique)
    if rng.random() < 0.06:
        spec["cfg"]["error_tol"] = rng.choice([0.01, 0.05, 1e-6])  # (a numerical guard of the work-amount checks, nothing to do with space)
    if spec.get("history") is None and rng.random() < 0.12:
        ed = [rng.randint(0, 10) for _ in range(rng.randint(1, 3))]
        if spec["cfg"].get("absence") and rng.random() < 0.6:
            ed.append(rng.choice(spec["cfg"]["absence"]))  # a step that is registered already
        if rng.random() < 0.4:
            ed.append(ed[0])
        spec["edit"] = ed
    return spec


def extra_candidates(spec):
    for c in C.history_candidates(spec):
        yield c
    for c in C.edit_candidates(spec):
        yield c


def used_space(st, placed):
    """space taken at one workplace: components none of whose ancestors is placed there too"""
    s = 0.0
    pset = set(placed)
    for cid in pset:
        if any(a in pset for a in st.ancestors(cid)):
            continue
        s += st.comps[cid].get("size", 1.0)
    return s


def check_trace(res, tr):
    st = Static(tr.model)
    rec = tr.rec
    nested = any(st.children[c] for c in st.comp_order)
    ntag = "nested" if nested else "flat"
    if nested:
        res.count("nested_product")
    if any(len(v) > 1 for v in st.comp_tasks.values()):
        res.count("multi_task_component")
    nontrivial = False
    loc = {cid: None for cid in st.comp_order}  # location at the previous recorded instant
    if rec.init_snap is not None:
        for cid in st.comp_order:
            loc[cid] = rec.init_snap["C"][cid][1]  # a continuation starts from the placements the first call left
    off = getattr(tr, "log_offset", 0)
    for s in rec.steps:
        k = s.t
        for ph in ("updated", "allocated", "recorded"):
            sn = s.ph.get(ph)
            if sn is None:
                continue
            label = "t=%d/%s" % (k, ph)
            Cs, P = sn["C"], sn["P"]
            for cid in st.comp_order:
                listing = [wid for wid in st.wp_order if cid in P.get(wid, ())]
                if len(listing) > 1:
                    res.add("one_place", "C13.listed_at_several_workplaces." + ntag,
                            "%s: component %s is listed by workplaces %s" % (label, cid, listing), k)
                where = Cs[cid][1]
                if where is not None and (where not in P or cid not in P[where]):
                    res.add("two_way", "C13.component_says_placed_but_workplace_does_not_list." + ntag,
                            "%s: component %s reports workplace %s, which lists %s" % (label, cid, where, list(P.get(where, ()))), k)
                for wid in listing:
                    if where != wid:
                        res.add("two_way", "C13.workplace_lists_component_placed_elsewhere." + ntag,
                                "%s: workplace %s lists component %s, which reports %s" % (label, wid, cid, where), k)
            for wid in st.wp_order:
                placed = P.get(wid, ())
                if len(set(placed)) != len(placed):
                    res.add("dup", "C13.component_listed_twice." + ntag, "%s: workplace %s lists %s" % (label, wid, list(placed)), k)
                if len(set(placed)) > 1:
                    res.count("multi_component_workplace")
                u = used_space(st, placed)
                cap = st.wp[wid].get("cap", 1.0)
                if u > cap + 1e-8:
                    res.add("capacity", "C13.capacity_exceeded." + ntag,
                            "%s: workplace %s (capacity %r) holds %s taking %r" % (label, wid, cap, list(placed), u), k)
            if ph == "updated":
                for top in st.top_components():
                    if st.comp_tasks[top] and all(sn["T"][t][0] == FINISHED for t in st.comp_tasks[top]):
                        res.count("finished_component_left")
                        for cid in [top] + st.descendants(top):
                            if Cs[cid][1] is not None:
                                res.add("leave", "C13.finished_top_level_component_still_placed.%s" % ("self" if cid == top else "descendant"),
                                        "%s: all tasks of top-level component %s are FINISHED but %s is still placed at %s"
                                        % (label, top, cid, Cs[cid][1]), k)
        # move events of this step
        cur = dict(loc)
        moves_of = {}
        pending_origin = {}
        for ev in s.moves:
            cid = ev["c"]
            if cid not in cur:
                continue
            if ev["to"] is None:
                pending_origin[cid] = cur[cid] if cur[cid] is not None else pending_origin.get(cid)
                self_and_desc = [cid] + st.descendants(cid)
                for x in self_and_desc:
                    cur[x] = None
                continue
            origin = pending_origin.pop(cid, None) if cur[cid] is None else cur[cid]
            dest = ev["to"]
            res.count("placements")
            if dest in st.wp_inputs and st.wp_inputs[dest]:
                res.count("conveyor_target")
                if origin is not None and origin != dest and origin not in st.wp_inputs[dest]:
                    res.add("conveyor", "C13.conveyor_rule." + ntag,
                            "step %d: component %s entered workplace %s (inputs %s) coming from %s" % (k, cid, dest, st.wp_inputs[dest], origin), k)
            if origin is not None and origin != dest:
                res.count("relocations")
                nontrivial = True
                moves_of.setdefault(cid, []).append((origin, dest))
                if ev.get("holding") and not ev.get("working"):
                    res.add("working", "C13.moved_after_a_task_got_its_workers_in_this_step." + ntag,
                            "step %d: component %s was moved from %s to %s although its task(s) %s had already been given workers in "
                            "this step and start WORKING in it" % (k, cid, origin, dest, ev["holding"]), k)
                if ev.get("working"):
                    res.add("working", "C13.moved_while_task_WORKING." + ntag,
                            "step %d: component %s moved from %s to %s while one of its tasks is WORKING" % (k, cid, origin, dest), k)
            for x in [cid] + st.descendants(cid):
                cur[x] = dest
        for cid, mv in moves_of.items():
            if len(mv) > 1:
                ntasks = len(st.comp_tasks[cid])
                res.add("once", "C13.moved_twice_in_one_step.%s" % ("multi_task" if ntasks > 1 else "single_task"),
                        "step %d: component %s was relocated %d times: %s" % (k, cid, len(mv), mv), k)
        R = s.ph.get("recorded")
        if R is None:
            break
        # site rule: allocated facilities belong to the workplace where the task's component is placed
        for tid in st.order:
            fs = R["T"][tid][3]
            if not fs:
                continue
            cid = st.task_comp.get(tid)
            where = R["C"][cid][1] if cid is not None else None
            for f in fs:
                res.count("facility_site_checked")
                if f in st.fac_wp and st.fac_wp[f] != where:
                    if nested:
                        sub = "nested.component_with_ancestor" if (cid is not None and st.parents[cid]) else "nested.top_level_component"
                    else:
                        sub = "flat"
                    res.add("site", "C13.facility_of_other_workplace.%s" % sub,
                            "step %d: task %s works with facility %s of workplace %s while its component %s is placed at %s"
                            % (k, tid, f, st.fac_wp[f], cid, where), k)
        for cid in st.comp_order:
            loc[cid] = R["C"][cid][1]
    # capacity refusal probe + ID logs
    steps = C.full_steps(rec)
    for i, s in enumerate(steps):
        R = s.ph["recorded"]
        for cid in st.comp_order:
            if R["C"][cid][0] == READY and R["C"][cid][1] is None and st.comp_tasks[cid]:
                res.count("capacity_full_refusal")
                nontrivial = True
    for c in tr.ix.comps:
        rec_ = c.placed_workplace_id_record[off:]
        for i, s in enumerate(steps[: len(rec_)]):
            live = s.ph["recorded"]["C"][c.ID][1]
            if rec_[i] != live:
                res.add("log", "C13.log_placed_workplace", "step %d: placed_workplace_id_record of %s is %r, live %r"
                        % (s.t, c.ID, rec_[i], live), s.t)
                break
    for wp in tr.ix.wps:
        rec_ = wp.placed_component_id_record[off:]
        for i, s in enumerate(steps[: len(rec_)]):
            live = list(s.ph["recorded"]["P"][wp.ID])
            if list(rec_[i] or []) != live:
                res.add("log", "C13.log_placed_component", "step %d: placed_component_id_record of %s is %r, live %r"
                        % (s.t, wp.ID, rec_[i], live), s.t)
                break
    return nontrivial


def run(spec):
    tr = C.run_forward(spec)
    res = C.base_result(tr)
    res.nontrivial = bool(check_trace(res, tr))
    if spec.get("edit") and tr.out.ok and getattr(tr, "history", None) is None:
        # absence steps inserted into the finished logs: at every log index a workplace still lists a component exactly when
        # the component's own log says it is placed there
        from .. import director as D
        res.count("edit_runs")
        o = D.call(lambda: tr.project.insert_absence_time_list(list(spec["edit"])))
        if o.ok:
            ix = D.index(tr.project)
            done = False
            for c in ix.comps:
                for i, wid in enumerate(c.placed_workplace_id_record):
                    for wp in ix.wps:
                        if i >= len(wp.placed_component_id_record):
                            continue
                        listed = c.ID in (wp.placed_component_id_record[i] or [])
                        if listed != (wid == wp.ID):
                            res.add("edit", "C13.after_insert_absence.component_and_workplace_logs_disagree",
                                    "after insert_absence_time_list(%s): at log index %d component %s is logged at %r, workplace %s logs %s"
                                    % (spec["edit"], i, c.ID, wid, wp.ID, wp.placed_component_id_record[i]), i)
                            done = True
                            break
                    if done:
                        break
                if done:
                    break
    return C.finish(res, tr)
