"""C02 - remaining work changes only by the allocated resources' contribution; finish timing."""
from .. import gen as G
from .. import scen
from . import common as C
from .common import NONE, READY, WORKING, FINISHED, SNAME, Static, TOL

ID = "C02"
LEVEL = "exploration"
DESIGN_REF = "DESIGN.md section 5, C02"
TECHNIQUE = "deterministic simulation: per-step conservation oracle on live snapshots, absence faults placed inside work"
RULE = ("seeded random models with sd=0 skills (dyadic alphabet: exact ==; decimal alphabet: 1e-9 relative), "
        "multi-worker allocations, worker-facility pairs, default progress, zero work, project-wide and individual "
        "absences; per task and step the remaining work at 'performed' must equal the value at 'allocated' minus an "
        "independently computed contribution. Non-trivial = some WORKING non-auto task received a contribution "
        "from >=1 worker in >=2 steps; distinct = distinct scenario digests")
ASSUMPTIONS = ["skill standard deviations are 0", "unit_time = 1", "models <= 8 tasks"]
LEVEL_TEXT = ("Seeded exploration of the conservation law 'remaining work decreases exactly by what is allocated', checked "
              "at every step of every run against an independent contribution formula, with exact equality on a dyadic "
              "value alphabet; plus both directions of the finish-timing clause.")
LEVEL_NOTE = "Trusted: harness observers and the independent contribution formula; sampling evidence only."
PROBES = ["contrib_multi_worker", "contrib_pair", "contrib_absent_worker_zero", "contrib_absent_facility_zero",
          "auto_progress_in_absence", "finish_overshoot", "finish_exact_zero", "zero_work_task", "finish_blocked_by_dep", "remove_runs", "remove_after_backward_runs"]


def budget(tier):
    return 8000 if tier == "quick" else 2500000


def gen(rng, tier):
    focus = {}
    if rng.random() < 0.5:
        focus["res_abs"] = True
    if rng.random() < 0.4:
        focus.update(comps=True, facilities=True)
    if rng.random() < 0.3:
        focus["contention"] = "low"
    spec = C.gen_edit(rng, C.maybe_from_json(rng, C.maybe_history(rng, C.forward_spec(rng, tier, focus), 0.25)))
    if spec.get("edit") is not None and rng.random() < 0.5:
        spec["edit"] = sorted(set(spec["edit"]) | {0})
    if rng.random() < 0.06:
        # a non-default error_tol argument (documented as a guard against numerical error) and tasks that end a hair above zero
        spec["cfg"]["error_tol"] = rng.choice([0.01, 0.05])
        for t_ in spec["model"]["tasks"]:
            if rng.random() < 0.5:
                t_["work"] = t_["work"] + rng.choice([0.005, 0.003])
    if rng.random() < 0.1:
        # an automatic task declared with the rate 0 (0.0 or the int 0): it is WORKING and its remaining work stays where it is
        for t_ in spec["model"]["tasks"]:
            if t_.get("auto") and not t_.get("sub") and rng.random() < 0.7:
                t_["rate"] = rng.choice([0.0, 0])
    if rng.random() < 0.08 and not spec.get("edit") and not spec.get("from_json"):
        # an (unconfigured) sub-project task: an automatic task of its own class; with a history, the project goes through a file
        m_ = spec["model"]
        n0_ = len(m_["tasks"])
        i_ = G.append_task(m_, {"id": "tsub", "work": rng.choice([2.0, 3.0, 5.0]), "rate": rng.choice([0.5, 1.0]), "sub": {"file": None, "unit_s": 60}}, rng)
        for a_ in range(n0_):
            if rng.random() < 0.2:
                m_["deps"].append([a_, i_, 0])
        spec["ranks"]["tsub"] = max(spec["ranks"].values()) + 1
        if spec.get("history") is not None and not spec["history"].get("org_edit") and rng.random() < 0.7:
            spec["history"].update(reload=True, state=False, log=rng.random() < 0.5, k=rng.randint(1, 6))
    if spec.get("edit") is None and spec.get("history") is None and rng.random() < 0.12:
        ab = spec["cfg"].get("absence") or G.gen_absence(rng, 12, rng.randint(2, 5))
        if rng.random() < 0.4 and ab:
            ab = list(ab) + [rng.choice(ab)]  # a step named twice (two calendars put together)
        spec["cfg"]["absence"] = ab
        spec["remove"] = True
        if rng.random() < 0.35 and not spec.get("from_json") and spec["cfg"].get("unit_time", 1) == 1:
            spec["remove_backward"] = True  # ... from the (reversed) logs of a backward simulation
    return spec


def extra_candidates(spec):
    if spec.get("remove_backward"):
        c = dict(spec)
        c.pop("remove_backward")
        yield c
    if spec.get("remove"):
        c = dict(spec)
        c.pop("remove")
        yield c
    for c in C.history_candidates(spec):
        yield c
    for c in C.edit_candidates(spec):
        yield c


def close(a, b, exact):
    if a == b:
        return True
    if exact:
        return False
    return abs(a - b) <= 1e-9 * max(1.0, abs(a), abs(b))


def contribution(st, tid, snapA, k, working, auto_flag, res=None):
    """Independent contribution of step k for a task that is WORKING at the 'allocated' instant."""
    if st.auto(tid):
        if working or auto_flag:
            return st.rate(tid)
        return 0.0
    if not working:
        return 0.0
    _, _, ws, fs = snapA["T"][tid][:4]
    total = 0.0
    if st.nf(tid):
        for i in range(min(len(ws), len(fs))):
            w, f = ws[i], fs[i]
            sw = st.w_skill(w, tid) if st.w_skill(w, tid) > TOL else 0.0
            sf = st.f_skill(f, tid) if st.f_skill(f, tid) > TOL else 0.0
            if st.w_absent(w, k):
                sw = 0.0
                if res is not None:
                    res.count("contrib_absent_worker_zero")
            if st.f_absent(f, k):
                sf = 0.0
                if res is not None:
                    res.count("contrib_absent_facility_zero")
            total += sw * sf
        if res is not None and ws:
            res.count("contrib_pair")
    else:
        for w in ws:
            sw = st.w_skill(w, tid) if st.w_skill(w, tid) > TOL else 0.0
            if st.w_absent(w, k):
                sw = 0.0
                if res is not None:
                    res.count("contrib_absent_worker_zero")
            total += sw
        if res is not None and len(ws) > 1:
            res.count("contrib_multi_worker")
    return total


def finish_deps_ok(st, tid, T_prev, started_prev, T_now=None):
    """FF predecessors FINISHED - by the previous recorded state or in this very update (the finish check is repeated until
    nothing changes, so a task whose FF predecessor finishes now finishes now as well) - and SF predecessors started by
    the previous recorded state (starting happens after the update)."""
    for (p, k) in st.preds[tid]:
        if k == G.FF and T_prev[p][0] != FINISHED and not (T_now is not None and T_now[p][0] == FINISHED):
            return False
        if k == G.SF and not started_prev[p]:
            return False
    return True


def sf_pred_finished(st, tid, T_prev):
    return any(k == G.SF and T_prev[p][0] == FINISHED for (p, k) in st.preds[tid])


def check_trace(res, tr, clause_prefix="C02"):
    st = Static(tr.model)
    rec = tr.rec
    exact = tr.model.get("alphabet", None) == "dyadic" or tr.__dict__.get("exact", False)
    auto_flag = bool(tr.cfg.get("auto_flag", False))
    steps = rec.steps
    contributed = 0
    started = {tid: False for tid in st.order}
    prevR = None  # previous 'recorded' T (or init)
    hist = getattr(tr, "history", None)
    if rec.init_snap is not None:
        prevR = rec.init_snap["T"]
        for tid in st.order:
            if prevR[tid][0] in (WORKING, FINISHED, 3):
                started[tid] = True  # a continuation starts from what the first call left
            r0 = st.initial_remaining(tid)
            if hist is not None and not hist["state"]:
                continue  # state kept: the remaining work is whatever the first call left
            if prevR[tid][0] == FINISHED and not st.exempt(tid):
                res.add("finish_early", clause_prefix + ".finished_at_start_without_full_default_progress",
                        "%s is FINISHED right after initialize although its default progress is %r (work %r): it never had a step in which "
                        "its remaining work reached zero" % (tid, st.tasks[tid].get("dp", 0.0), st.tasks[tid]["work"]), -1)
            if not close(prevR[tid][1], r0, exact):
                res.add("initial", clause_prefix + ".initial_remaining", "remaining work of %s after initialize is %r, "
                        "expected default_work_amount*(1-default_progress) = %r" % (tid, prevR[tid][1], r0), -1)
            if st.tasks[tid]["work"] == 0.0:
                res.count("zero_work_task")
    started_prev = dict(started)
    for s in steps:
        k = s.t
        working = k not in tr.absence
        U = s.ph.get("updated")
        A = s.ph.get("allocated")
        Pf = s.ph.get("performed")
        R = s.ph.get("recorded")
        if U is None:
            break
        UT = U["T"]
        if prevR is not None:
            for tid in st.order:
                ps, prem = prevR[tid][0], prevR[tid][1]
                us, urem = UT[tid][0], UT[tid][1]
                if us == FINISHED and ps != FINISHED:
                    # turned FINISHED in this update
                    if ps != WORKING or not (prem < TOL):
                        res.add("finish_early", clause_prefix + ".finish_early",
                                "%s turned FINISHED at step %d but was %s with remaining %r at the step before"
                                % (tid, k, SNAME.get(ps, ps), prem), k)
                    if urem != 0.0:
                        res.add("finish_report", clause_prefix + ".finished_remaining_not_zero",
                                "%s is FINISHED at step %d with remaining %r (must be reported as 0)" % (tid, k, urem), k)
                    if prem < 0.0:
                        res.count("finish_overshoot")
                    else:
                        res.count("finish_exact_zero")
                else:
                    if not close(urem, prem, exact):
                        res.add("update_changes", clause_prefix + ".remaining_changed_in_update",
                                "remaining of %s changed from %r to %r during the update of step %d without finishing"
                                % (tid, prem, urem, k), k)
                    if ps == WORKING and prem < TOL and us != FINISHED:
                        if finish_deps_ok(st, tid, prevR, started_prev, UT):
                            kinds = sorted(set(G.KIND_NAME[kk] for (_, kk) in st.preds[tid] if kk in (G.FF, G.SF)))
                            tag = "+".join(kinds) if kinds else "nodep"
                            if sf_pred_finished(st, tid, prevR):
                                tag += ".SFpredFinished"
                            res.add("finish_late", clause_prefix + ".finish_late." + tag,
                                    "%s was WORKING with remaining %r and its finish dependencies held at step %d, "
                                    "but it is %s at step %d" % (tid, prem, k - 1, SNAME.get(us, us), k), k)
                        else:
                            res.count("finish_blocked_by_dep")
                if us == FINISHED and urem != 0.0 and ps == FINISHED:
                    res.add("finish_report", clause_prefix + ".finished_remaining_not_zero",
                            "%s is FINISHED with remaining %r at step %d" % (tid, urem, k), k)
        if A is None or Pf is None:
            break
        AT, PT = A["T"], Pf["T"]
        for tid in st.order:
            if not close(AT[tid][1], UT[tid][1], exact):
                res.add("alloc_changes", clause_prefix + ".remaining_changed_in_allocation",
                        "remaining of %s changed from %r to %r between update and allocation of step %d"
                        % (tid, UT[tid][1], AT[tid][1], k), k)
            a_state = AT[tid][0]
            if a_state == WORKING:
                c = contribution(st, tid, A, k, working, auto_flag, res)
                if c > 0 and not st.auto(tid):
                    contributed += 1
                if st.auto(tid) and not working and auto_flag:
                    res.count("auto_progress_in_absence")
            else:
                c = 0.0
            exp = AT[tid][1] - c
            if not close(PT[tid][1], exp, exact):
                kind = "auto" if st.auto(tid) else ("pair" if st.nf(tid) else "workers")
                what = "working_step" if working else "absence_step"
                stn = SNAME.get(a_state, a_state)
                res.add("contribution", "%s.contribution.%s.%s.%s" % (clause_prefix, kind, what, stn),
                        "step %d: %s (%s, %s) had remaining %r, allocated workers %s facilities %s; expected "
                        "remaining %r after perform, got %r" % (k, tid, stn, what, AT[tid][1], list(AT[tid][2]),
                                                                 list(AT[tid][3]), exp, PT[tid][1]), k)
        if R is None:
            break
        RT = R["T"]
        for tid in st.order:
            if RT[tid][1] != PT[tid][1] or RT[tid][0] != PT[tid][0]:
                res.add("record_changes", clause_prefix + ".changed_while_recording",
                        "%s changed between perform and record of step %d" % (tid, k), k)
        started_prev = dict(started_prev)
        for tid in st.order:
            if RT[tid][0] in (WORKING, FINISHED, 3):
                started_prev[tid] = True
        prevR = RT
    # what simulate() leaves behind: the update of the iteration in which it returns has been made (also at the time limit)
    if tr.out.ok and steps and steps[-1].ph.get("recorded") is not None and prevR is not None:
        from .. import director as D
        now = D.snapshot(tr.ix)["T"]
        for tid in st.order:
            ps, prem = prevR[tid][0], prevR[tid][1]
            if ps == WORKING and prem < TOL and now[tid][0] != FINISHED and finish_deps_ok(st, tid, prevR, started_prev, now):
                res.add("finish_late", clause_prefix + ".finish_late.at_return",
                        "%s was WORKING with remaining %r at the last recorded step; when simulate() returned (time %r) it is still %s"
                        % (tid, prem, tr.project.time, SNAME.get(now[tid][0], now[tid][0])), steps[-1].t)
                break
    return contributed


def run_remove_backward(spec):
    """backward_simulate (logs reversed at the end) under project absence steps, then remove_absence_time_list(): what is left
    of every remaining-work log is what was recorded at the working steps of the inner run, in reversed order."""
    from .. import build as B
    from .. import director as D
    scen.setup_run(spec.get("seed", 0))
    tr = scen.Trace()
    tr.model, tr.cfg = spec["model"], spec["cfg"]
    tr.built = B.build(spec["model"], spec.get("ranks"))
    tr.project = tr.built.project
    tr.absence = set(spec["cfg"].get("absence", []))
    tr.rec, tr.out = scen.simulate(tr.project, spec["cfg"], backward={"due": False, "reverse": True})
    tr.ix = tr.rec.ix
    tr.history, tr.log_offset = None, 0
    res = C.base_result(tr)
    res.count("remove_after_backward_runs")
    steps = C.full_steps(tr.rec)
    res.nontrivial = len(steps) >= 2 and any(s_.t in tr.absence for s_ in steps)
    if tr.out.ok and len(steps) == len(tr.project.cost_list):
        want = {}
        for s_ in steps:
            if s_.t not in tr.absence:
                for tid_, v_ in s_.ph["recorded"]["T"].items():
                    want.setdefault(tid_, []).append(v_[1])
        o = D.call(lambda: tr.project.remove_absence_time_list())
        if o.ok:
            for t in tr.ix.tasks:
                got = list(t.remaining_work_amount_record_list)
                exp = list(reversed(want.get(t.ID, [])))
                if got != exp:
                    res.add("edit", "C02.after_remove_absence.remaining_work_log_is_not_the_working_steps.backward",
                            "backward_simulate with absence list %s (logs reversed), then remove_absence_time_list(): the remaining-work log of "
                            "%s is %s; the values recorded at the working steps, reversed, are %s"
                            % (spec["cfg"].get("absence"), t.ID, got[:14], exp[:14]), None)
                    break
    return C.finish(res, tr)


def run(spec):
    if spec.get("remove_backward") and spec.get("remove") and not spec.get("edit") and spec.get("history") is None:
        return run_remove_backward(spec)
    tr = C.run_forward(spec)
    tr.exact = spec.get("profile", {}).get("alphabet") == "dyadic"
    res = C.base_result(tr)
    n = check_trace(res, tr)
    res.nontrivial = n >= 2
    snap_ = getattr(tr, "pre_reload_snap", None)
    hist_ = getattr(tr, "history", None)
    if snap_ is not None and hist_ and not hist_.get("state") and tr.rec.steps:
        # a project that went through a file between two calls goes on with the remaining work the first call left
        ph_ = tr.rec.steps[0].ph.get("updated") or tr.rec.steps[0].ph.get("allocated")
        if ph_ is not None and not tr.rec.steps[0].synth_updated:
            res.count("remaining_work_through_reload_compared")
            for tid_ in sorted(snap_["T"]):
                if tid_ in ph_["T"] and ph_["T"][tid_][1] != snap_["T"][tid_][1]:
                    res.add("reload", "C02.remaining_work_changed_by_json_restart.%s" % ("subproject_task" if tid_ == "tsub" else "task"),
                            "%s had remaining work %r when the first call returned; after write_simple_json/read_simple_json into the same "
                            "project the continuing call starts with %r" % (tid_, snap_["T"][tid_][1], ph_["T"][tid_][1]), None)
                    break
    if spec.get("edit") and tr.out.ok:
        # log edit: an inserted absence step is a step in which nothing works, so its remaining-work entry repeats the
        # previous entry (the initial remaining work for a step inserted before the first step)
        o, marks = C.apply_edit(tr, spec["edit"])
        res.count("edit_runs")
        if o.ok and len(marks) == len(tr.project.cost_list):
            st = Static(tr.model)
            for t in tr.ix.tasks:
                rl = t.remaining_work_amount_record_list
                for i, mk in enumerate(marks):
                    if not mk or i >= len(rl):
                        continue
                    prev = rl[i - 1] if i > 0 else st.initial_remaining(t.ID)
                    if not close(rl[i], prev, tr.exact):
                        res.add("edit", "C02.after_insert_absence.inserted_step_changes_remaining_work.%s" % ("step0" if i == 0 else "inner"),
                                "after insert_absence_time_list(%s): remaining work of %s at inserted index %d is %r, the entry before is %r"
                                % (spec["edit"], t.ID, i, rl[i], prev), i)
                        break
    if spec.get("remove") and tr.out.ok and not spec.get("edit") and getattr(tr, "history", None) is None:
        # the absence steps are deleted from the finished logs: what is left is the remaining work recorded at the working
        # steps, in their order (nothing else may disappear, nothing may change)
        from .. import director as D
        res.count("remove_runs")
        want = {}
        for s_ in C.full_steps(tr.rec):
            if s_.t not in tr.absence:
                for tid_, v_ in s_.ph["recorded"]["T"].items():
                    want.setdefault(tid_, []).append(v_[1])
        o = D.call(lambda: tr.project.remove_absence_time_list())
        if o.ok:
            for t in tr.ix.tasks:
                got = list(t.remaining_work_amount_record_list)
                if got != want.get(t.ID, []):
                    res.add("edit", "C02.after_remove_absence.remaining_work_log_is_not_the_working_steps",
                            "after remove_absence_time_list() (absence list %s) the remaining-work log of %s is %s; the values recorded at the "
                            "working steps were %s" % (spec["cfg"].get("absence"), t.ID, got[:14], want.get(t.ID, [])[:14]), None)
                    break
    return C.finish(res, tr)
