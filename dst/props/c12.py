"""C12 - PERT/CPM values equal an independent critical-path computation at every update."""
from .. import director as D
from .. import gen as G, scen, seams
from . import common as C
from .common import Static, FINISHED

ID = "C12"
LEVEL = "exploration"
DESIGN_REF = "DESIGN.md section 5, C12"
TECHNIQUE = "deterministic simulation: reference CPM recomputed at every update instant of seeded runs whose critical path grows through absences and contention"
RULE = ("seeded finish-to-start networks (any shape, several heads/tails, zero remaining, default progress, finished tasks) "
        "simulated under contention and absences; at initialize, at every 'updated' instant of every step and after Director-"
        "initiated update_PERT_data(t') calls with later t' on the finished/paused project, est/eft/lst/lft of every task and the "
        "critical path length are compared with an independent topological-order CPM over the live remaining work; slack >= 0 "
        "and = 0 for some task. Non-trivial = >=2 tasks, >=1 edge and the critical path length changed between two updates by "
        "something other than the elapsed time; distinct = scenario digests")
ASSUMPTIONS = ["finish-to-start networks only (as the statement says)", "comparison tolerance 1e-9 relative", "models <= 8 tasks"]
LEVEL_TEXT = ("Seeded exploration; pDESy's PERT values are compared with an independent CPM at every update of every run, in the "
              "regime (waiting makes the critical path grow) the fixture test never reaches.")
LEVEL_NOTE = "Trusted: the 25-line reference CPM in this module; sampling evidence only."
PROBES = ["updates_checked", "cpl_grew_while_waiting", "multi_tail", "multi_head", "finished_task_in_network", "extra_update_calls",
          "zero_remaining_task", "backward_prelude", "values_after_return_checked", "second_workflow_over_same_tasks",
          "standalone_update_on_fresh_workflow", "restored_from_json_checked", "reinitialized_checked"]


def budget(tier):
    return 6000 if tier == "quick" else 2000000


def gen(rng, tier):
    focus = {"kinds": [G.FS], "density": rng.choice([0.3, 0.5, 0.5])}
    if rng.random() < 0.5:
        focus["contention"] = "high"
    if rng.random() < 0.5:
        focus["proj_abs"] = True
    spec = C.forward_spec(rng, tier, focus)
    spec["extra_t"] = [rng.randint(0, 30) for _ in range(2)]
    if rng.random() < 0.1:
        spec["second_workflow"] = True
    if rng.random() < 0.12:
        spec["standalone_t"] = rng.randint(0, 9)
    if rng.random() < 0.12:
        spec["json_after"] = True
    if rng.random() < 0.12:
        spec["reinit"] = rng.choice(["project_log_kept", "workflow_log_kept", "project"])
    if rng.random() < 0.2:
        for t in spec["model"]["tasks"]:
            if rng.random() < 0.7:
                t["due"] = rng.randint(0, 12)
        spec["prelude"] = {"due": rng.random() < 0.8, "reverse": rng.random() < 0.5,
                           "limit": rng.choice([None, None, 1, 3, 6]), "dt": rng.randint(0, 5)}
    return spec


def extra_candidates(spec):
    for k in ("prelude", "second_workflow", "standalone_t", "json_after", "reinit"):
        if spec.get(k) is not None:
            c = dict(spec)
            c.pop(k)
            yield c


def close(a, b):
    return abs(a - b) <= 1e-9 * max(1.0, abs(a), abs(b))


def reference_cpm(st, rem, time):
    est, eft = {}, {}
    for tid in st.order:  # spec order is a topological order (edges go from lower to higher index)
        e = time
        for (p, k) in st.preds[tid]:
            e = max(e, est[p] + rem[p])
        est[tid] = e
        eft[tid] = e + rem[tid]
    cpl = max(eft.values())
    lst, lft = {}, {}
    for tid in reversed(st.order):
        if not st.succs[tid]:
            lf = cpl
        else:
            lf = min(lst[s] for (s, k) in st.succs[tid])
        lft[tid] = lf
        lst[tid] = lf - rem[tid]
    return est, eft, lst, lft, cpl


def compare(res, st, T, cpl, time, label):
    rem = {tid: T[tid][1] for tid in st.order}
    est, eft, lst, lft, rcpl = reference_cpm(st, rem, time)
    res.count("updates_checked")
    if not close(cpl, rcpl):
        res.add("cpl", "C12.critical_path_length", "%s: critical_path_length=%r, reference %r" % (label, cpl, rcpl), time)
    minslack = None
    for tid in st.order:
        v = T[tid]
        got = {"est": v[4], "eft": v[5], "lst": v[6], "lft": v[7]}
        exp = {"est": est[tid], "eft": eft[tid], "lst": lst[tid], "lft": lft[tid]}
        for name in ("est", "eft", "lst", "lft"):
            if not close(got[name], exp[name]):
                res.add(name, "C12.%s" % name, "%s: task %s %s=%r, reference %r (remaining %r; all: got %s, reference %s)"
                        % (label, tid, name, got[name], exp[name], rem[tid], got, exp), time)
        slack = v[6] - v[4]
        if slack < -1e-9:
            res.add("slack", "C12.negative_slack", "%s: task %s has slack %r (lst %r, est %r)" % (label, tid, slack, v[6], v[4]), time)
        minslack = slack if minslack is None else min(minslack, slack)
    if minslack is not None and abs(minslack) > 1e-9:
        res.add("slack", "C12.no_zero_slack_task", "%s: smallest slack is %r, a critical path must have slack 0" % (label, minslack), time)
    return rcpl


def standalone(spec, res):
    """update_PERT_data(t) called directly on a freshly built workflow (no initialize, no simulate)."""
    from .. import build as B
    scen.setup_run(spec.get("seed", 0))
    b = B.build(spec["model"], spec.get("ranks"))
    st = Static(spec["model"])
    tt = spec["standalone_t"]
    r = D.Recorder(b.project, want_snap=False)
    r.own_call = True
    o = D.call(lambda: b.project.workflow.update_PERT_data(tt), r)
    res.count("standalone_update_on_fresh_workflow")
    if not o.ok:
        res.add("raises", "C12.update_raises.%s@%s" % (o.exc_type, o.where), "update_PERT_data(%d) on a freshly built workflow raised %s" % (tt, o.msg), tt)
        return
    sn = D.snapshot(D.index(b.project))
    pre = C.campaign.Result()
    compare(pre, st, sn["T"], sn["cpl"], tt, "update_PERT_data(%d) on a freshly built workflow" % tt)
    for v in pre.violations:
        res.add(v["clause"], v["key"] + ".fresh_workflow", v["msg"], v["step"])


def run(spec):
    if spec.get("prelude") is None:
        tr = C.run_forward(spec, snap_phases=("updated", "allocated", "recorded"))
    else:
        # history: backward_simulate first (helper tasks for due times are added and must be gone again), then the
        # forward run whose PERT updates are compared with the reference CPM over the *given* network
        from .. import build as B
        scen.setup_run(spec.get("seed", 0))
        tr = scen.Trace()
        tr.model, tr.cfg = spec["model"], spec["cfg"]
        tr.built = B.build(spec["model"], spec.get("ranks"))
        tr.project = tr.built.project
        tr.absence = set(spec["cfg"].get("absence", []))
        pcfg = dict(spec["cfg"])
        if spec["prelude"].get("limit") is not None:
            pcfg["max_time"] = spec["prelude"]["limit"]
        rb, ob = scen.simulate(tr.project, pcfg, want_snap=False, backward=spec["prelude"])
        if ob.ok and not any(k != G.FS for (_, _, k) in tr.model["deps"]):
            # the network is forward again: a direct PERT update (no initialize in between) must match the reference
            st0 = Static(tr.model)
            tt = tr.project.time + spec["prelude"].get("dt", 0)
            r0 = D.Recorder(tr.project, want_snap=False)
            r0.own_call = True
            o0 = D.call(lambda: tr.project.workflow.update_PERT_data(tt), r0)
            if o0.ok:
                sn0 = D.snapshot(D.index(tr.project))
                pre = C.campaign.Result()
                compare(pre, st0, sn0["T"], sn0["cpl"], tt, "update_PERT_data(%d) directly after backward_simulate" % tt)
                spec["_pre_violations"] = [(v["clause"], v["key"] + ".after_backward", v["msg"], v["step"]) for v in pre.violations]
        tr.rec, tr.out = scen.simulate(tr.project, spec["cfg"], snap_phases=("updated", "allocated", "recorded"))
        tr.ix = tr.rec.ix
        tr.history = None
        tr.log_offset = 0
    res = C.base_result(tr)
    if spec.get("prelude") is not None:
        res.count("backward_prelude")
        for (cl, key, msg, step) in spec.pop("_pre_violations", []):
            res.add(cl, key, msg, step)
    st = Static(tr.model)
    if any(k != G.FS for (_, _, k) in tr.model["deps"]):
        return C.finish(res, tr)
    if spec.get("standalone_t") is not None:
        standalone(spec, res)
    heads = [t for t in st.order if not st.preds[t]]
    tails = [t for t in st.order if not st.succs[t]]
    if len(heads) > 1:
        res.count("multi_head")
    if len(tails) > 1:
        res.count("multi_tail")
    rec = tr.rec
    grew = False
    if rec.init_snap is not None:
        compare(res, st, rec.init_snap["T"], rec.init_snap["cpl"], 0, "after initialize")
    prev = None
    for s in rec.steps:
        U = s.ph.get("updated")
        if U is None:
            # the step went on without a PERT update having been observed: the values the allocation of this step
            # works with must be current all the same ("equally at every later step of a simulation")
            U = s.ph.get("allocated")
            if U is None:
                continue
            res.count("step_without_observed_update")
            c = compare(res, st, U["T"], U["cpl"], s.t, "step t=%d (no PERT update observed before its allocation)" % s.t)
            prev = (s.t, c)
            continue
        c = compare(res, st, U["T"], U["cpl"], s.t, "update at t=%d" % s.t)
        if any(v[0] == FINISHED for v in U["T"].values()):
            res.count("finished_task_in_network")
        if any(v[1] == 0.0 and v[0] != FINISHED for v in U["T"].values()):
            res.count("zero_remaining_task")
        if prev is not None and c > prev[1] + 1e-9:
            grew = True
            res.count("cpl_grew_while_waiting")
        prev = (s.t, c)
    # Director-initiated later updates on the quiescent project ("stored earlier values" case)
    if tr.out.ok:
        wf = tr.project.workflow
        t0 = tr.project.time
        # what simulate() leaves behind is the update of its last loop iteration (time = project.time)
        sn = D.snapshot(tr.ix)
        res.count("values_after_return_checked")
        compare(res, st, sn["T"], sn["cpl"], t0, "values left by simulate() (time %d)" % t0)
        if spec.get("json_after"):
            # the network read back from a file is the same network: a PERT update on the restored project matches the
            # reference over the *model's* edges (whatever order the tasks are listed in)
            new, ow, orr = scen.save_load(tr.project, "mem:c12.json", spec.get("ranks"))
            if new is not None:
                res.count("restored_from_json_checked")
                tt = t0 + (spec.get("extra_t") or [0])[0]
                r = D.Recorder(new, want_snap=False)
                r.own_call = True
                o = D.call(lambda: new.workflow.update_PERT_data(tt), r)
                if o.ok:
                    sn = D.snapshot(D.index(new))
                    pre = C.campaign.Result()
                    compare(pre, st, sn["T"], sn["cpl"], tt, "update_PERT_data(%d) on the project restored from JSON" % tt)
                    for v in pre.violations:
                        res.add(v["clause"], v["key"] + ".restored_from_json", v["msg"], v["step"])
        if spec.get("reinit") is not None:
            # initialize() with any flag combination that resets the state leaves a freshly initialized workflow: PERT for time 0
            how = spec["reinit"]
            res.count("reinitialized_checked")
            if how == "project_log_kept":
                o = D.call(lambda: tr.project.initialize(state_info=True, log_info=False))
            elif how == "workflow_log_kept":
                o = D.call(lambda: wf.initialize(state_info=True, log_info=False))
            else:
                o = D.call(lambda: tr.project.initialize())
            if o.ok:
                sn = D.snapshot(tr.ix)
                pre = C.campaign.Result()
                compare(pre, st, sn["T"], sn["cpl"], 0, "after %s" % {"project_log_kept": "project.initialize(state_info=True, log_info=False)",
                                                                        "workflow_log_kept": "workflow.initialize(state_info=True, log_info=False)"}.get(how, "project.initialize()"))
                for v in pre.violations:
                    res.add(v["clause"], v["key"] + ".after_initialize", v["msg"], v["step"])
        if spec.get("second_workflow") and spec.get("reinit") is None:
            # the same task objects are also registered in a second workflow (a what-if project over the same tasks);
            # PERT of the first workflow is a function of its task_list and the links only
            res.count("second_workflow_over_same_tasks")
            wf2 = seams.classes().Workflow()
            D.call(lambda: wf2.extend_child_task_list(list(wf.task_list)))
        for dt in spec.get("extra_t", []):
            tt = t0 + dt
            r = D.Recorder(tr.project, want_snap=False)
            r.own_call = True
            o = D.call(lambda: wf.update_PERT_data(tt), r)
            res.count("extra_update_calls")
            if not o.ok:
                res.add("raises", "C12.update_raises.%s@%s" % (o.exc_type, o.where), "update_PERT_data(%d) raised %s" % (tt, o.msg), tt)
                break
            sn = D.snapshot(tr.ix)
            compare(res, st, sn["T"], sn["cpl"], tt, "Director-initiated update_PERT_data(%d) after the run" % tt)
    res.nontrivial = len(st.order) >= 2 and bool(tr.model["deps"]) and grew
    return C.finish(res, tr)
