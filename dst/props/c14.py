"""C14 - a component's state is determined by the states of its tasks."""
from .. import director as D
from .. import gen as G
from . import common as C
from .common import NONE, READY, WORKING, FINISHED, SNAME, Static

ID = "C14"
LEVEL = "exploration"
DESIGN_REF = "DESIGN.md section 5, C14"
TECHNIQUE = "deterministic simulation: seeded products/workflows, component-state invariant on live snapshots at every phase and on the logs"
RULE = ("seeded products (flat/nested) with any assignment of tasks to components (none, one, several, mixed default "
        "progress), absences and all rules; at every phase of every step: FINISHED <=> all tasks FINISHED, some task WORKING "
        "=> WORKING, some task READY/WORKING => not NONE, never back to NONE, never leaves FINISHED; logs with the display "
        "rule. Non-trivial = a component with >=2 tasks changed state at least twice; distinct = scenario digests")
ASSUMPTIONS = ["models <= 8 tasks, <= 4 components"]
LEVEL_TEXT = "Seeded exploration; component/task state relation evaluated on the live state at every phase of every step and on the state logs."
LEVEL_NOTE = "Trusted: harness observers; sampling evidence only."
PROBES = ["component_without_task", "component_multi_task", "component_mixed_progress", "component_finished",
          "component_working_hidden_by_absence", "remove_runs", "reporting_calls_checked", "appended_project_checked", "backward_runs"]


def budget(tier):
    return 8000 if tier == "quick" else 2500000


def gen(rng, tier):
    focus = {"comps": True}
    if rng.random() < 0.4:
        focus["dp"] = True
    if rng.random() < 0.4:
        focus["nested"] = True
    if rng.random() < 0.4:
        focus["facilities"] = True
    spec = C.gen_edit(rng, C.maybe_from_json(rng, C.maybe_history(rng, C.forward_spec(rng, tier, focus), 0.3)))
    if rng.random() < 0.1 and spec["model"]["comps"]:
        m_ = spec["model"]
        n0_ = len(m_["tasks"])
        i_ = G.append_task(m_, {"id": "tsub", "work": rng.choice([1.0, 2.0, 3.0]), "rate": rng.choice([0.5, 1.0]), "comp": rng.randrange(len(m_["comps"])),
                                "sub": {"file": None, "unit_s": 60, "remove_abs": rng.random() < 0.6}}, rng)
        for a_ in range(n0_):
            if rng.random() < 0.25:
                m_["deps"].append([a_, i_, rng.choice(spec["profile"]["kinds"])])
        for wp_ in m_["wps"]:
            if rng.random() < 0.7:
                wp_["targets"].append(i_)
                for f_ in wp_["facs"]:
                    f_["skills"]["tsub"] = 1.0
        spec["ranks"]["tsub"] = max(spec["ranks"].values()) + 1
    if spec.get("history") is None and not spec["model"].get("comp_ctor_tasks") and rng.random() < 0.08:
        spec["appended"] = rng.randint(1, 8)
    elif spec.get("history") is None and not spec.get("edit") and rng.random() < 0.1:
        spec["backward"] = {"due": rng.random() < 0.3, "reverse": rng.random() < 0.7}
    if rng.random() < 0.06 and not spec.get("history") and not spec.get("from_json"):
        spec["model"]["comp_copies"] = True  # components are shallow copies of one template object
    elif rng.random() < 0.06 and not spec.get("history") and not spec.get("from_json") and not spec.get("backward") and not spec.get("appended"):
        spec["cfg"]["init_log"] = False  # the very first run of freshly built objects keeps "the logs" (there are none yet)
    if rng.random() < 0.1 and not any(t.get("nf") for t in spec["model"]["tasks"]):
        spec["model"]["comp_ctor_tasks"] = True  # BaseComponent(targeted_task_list=[...]): the tasks do not know their component
        if spec.get("history") is None and rng.random() < 0.6:
            spec["from_json"] = True
    if spec.get("history") is None and not spec.get("edit") and rng.random() < 0.2:
        if not spec["cfg"].get("absence"):
            spec["cfg"]["absence"] = G.gen_absence(rng, 16, rng.randint(2, 6))
        spec["remove"] = True  # the absence steps are deleted from the finished logs: the relation must still hold entry by entry
    if len(spec["model"].get("comps", [])) >= 2 and not spec["model"].get("comp_ctor_tasks") and rng.random() < 0.12:
        # "any assignment of tasks to components": a task appended to a second component as well (both list it)
        for t_ in spec["model"]["tasks"]:
            if t_.get("comp") is not None and not t_.get("sub") and rng.random() < 0.4:
                t_["also_comp"] = rng.choice([k_ for k_ in range(len(spec["model"]["comps"])) if k_ != t_["comp"]])
    return spec


def extra_candidates(spec):
    if spec.get("backward") is not None:
        c = dict(spec)
        c.pop("backward")
        yield c
    if spec.get("appended") is not None:
        c = dict(spec)
        c.pop("appended")
        yield c
    if spec.get("remove"):
        c = dict(spec)
        c.pop("remove")
        yield c
    for c in C.history_candidates(spec):
        yield c
    for c in C.edit_candidates(spec):
        yield c


def check_trace(res, tr):
    st = Static(tr.model)
    rec = tr.rec
    prev = {}
    hist = getattr(tr, "history", None)
    if hist is not None and not hist["state"] and getattr(tr, "first_snap", None) is not None:
        # a continuation (state kept): the component states the first call left are the previous states
        for cid in st.comp_order:
            prev[cid] = tr.first_snap["C"][cid][0]
    changes = {cid: 0 for cid in st.comp_order}
    for cid in st.comp_order:
        ts = st.comp_tasks[cid]
        if not ts:
            res.count("component_without_task")
        if len(ts) > 1:
            res.count("component_multi_task")
            if len(set(st.tasks[t].get("dp", 0.0) for t in ts)) > 1:
                res.count("component_mixed_progress")
    for label, k, ph, sn in C.walk(rec):
        T, Cs = sn["T"], sn["C"]
        for cid in st.comp_order:
            cs = Cs[cid][0]
            tstates = [T[t][0] for t in st.comp_tasks[cid]]
            allfin = all(s == FINISHED for s in tstates)
            if allfin != (cs == FINISHED):
                res.add("finished", "C14.finished_iff_all_tasks_finished.%s" % ("missing" if allfin else "spurious"),
                        "%s: component %s is %s, its tasks are %s" % (label, cid, SNAME.get(cs, cs), [SNAME.get(s, s) for s in tstates]), k)
            if any(s == WORKING for s in tstates) and cs != WORKING:
                res.add("working", "C14.task_working_component_not", "%s: component %s is %s although a task is WORKING (%s)"
                        % (label, cid, SNAME.get(cs, cs), [SNAME.get(s, s) for s in tstates]), k)
            if any(s in (READY, WORKING) for s in tstates) and cs == NONE:
                res.add("none", "C14.component_NONE_with_active_task", "%s: component %s is NONE although its tasks are %s"
                        % (label, cid, [SNAME.get(s, s) for s in tstates]), k)
            if cid in prev:
                if prev[cid] != NONE and cs == NONE:
                    res.add("back", "C14.back_to_NONE", "%s: component %s went from %s back to NONE" % (label, cid, SNAME.get(prev[cid])), k)
                if prev[cid] == FINISHED and cs != FINISHED:
                    res.add("leave", "C14.left_FINISHED", "%s: component %s left FINISHED for %s" % (label, cid, SNAME.get(cs, cs)), k)
                if prev[cid] != cs:
                    changes[cid] += 1
            prev[cid] = cs
            if cs == FINISHED:
                res.count("component_finished")
    steps = C.full_steps(rec)
    for c in tr.ix.comps:
        log = [int(x) for x in c.state_record_list][getattr(tr, "log_offset", 0):]
        for i, s in enumerate(steps[: len(log)]):
            live = s.ph["recorded"]["C"][c.ID][0]
            working = s.t not in tr.absence
            exp = C.display_task(live, working)
            if live == WORKING and not working:
                res.count("component_working_hidden_by_absence")
            if log[i] != exp:
                res.add("log", "C14.log_view", "state log of component %s at step %d is %s, live state was %s (%s step)"
                        % (c.ID, s.t, SNAME.get(log[i], log[i]), SNAME.get(live, live), "working" if working else "absence"), s.t)
                break
    return any(changes[c] >= 2 and len(st.comp_tasks[c]) >= 2 for c in st.comp_order)


def check_edited_logs(res, tr, marks, op="insert_absence"):
    """After absence steps were inserted into (deleted from) the finished logs the relation must still hold entry by entry."""
    st = Static(tr.model)
    if op != "insert_absence":
        tr.edit = "-"
    for c in tr.ix.comps:
        clog = [int(x) for x in c.state_record_list]
        for i in range(len(clog)):
            if i < len(marks) and all(marks[: i + 1]):
                continue  # a step inserted before the first step shows the library's "before the start" convention (NONE)
            tl = [int(tr.ix.task[t].state_record_list[i]) for t in st.comp_tasks[c.ID] if i < len(tr.ix.task[t].state_record_list)]
            if len(tl) != len(st.comp_tasks[c.ID]):
                continue
            allfin = all(x == FINISHED for x in tl)
            if allfin != (clog[i] == FINISHED):
                res.add("edit", "C14.after_%s.finished_iff_all_tasks_finished" % op,
                        "after %s_time_list(%s): at log index %d (%s) component %s is logged %s, its tasks %s"
                        % (op, tr.edit, i, "inserted step" if i < len(marks) and marks[i] else "original step", c.ID,
                           SNAME.get(clog[i], clog[i]), [SNAME.get(x, x) for x in tl]), i)
                return
            if any(x in (READY, WORKING) for x in tl) and clog[i] == NONE:
                res.add("edit", "C14.after_%s.component_NONE_with_active_task" % op,
                        "after %s_time_list(%s): at log index %d component %s is logged NONE, its tasks %s"
                        % (op, tr.edit, i, c.ID, [SNAME.get(x, x) for x in tl]), i)
                return
            if op in ("remove_absence", "simulate") and any(x == WORKING for x in tl) and clog[i] != WORKING:
                res.add("edit", "C14.after_%s.task_working_component_not" % op,
                        "after %s: at log index %d component %s is logged %s although a task is logged WORKING (%s)"
                        % (op, i, c.ID, SNAME.get(clog[i], clog[i]), [SNAME.get(x, x) for x in tl]), i)
                return


def check_reporting_is_read_only(res, tr):
    """Asking for chart data must not change what the logs say (a component that 'returns to NONE' in its log after a report
    was requested has left the relation as surely as one that does so in a step)."""
    p = tr.project
    comps = list(p.product.component_list)
    before = [([int(x) for x in c.state_record_list], list(c.placed_workplace_id_record)) for c in comps]
    for c in comps:
        D.call(lambda: c.get_time_list_for_gannt_chart())
        D.call(lambda: c.create_data_for_gantt_plotly(p.init_datetime, p.unit_timedelta))
    D.call(lambda: p.product.create_data_for_gantt_plotly(p.init_datetime, p.unit_timedelta))
    res.count("reporting_calls_checked")
    for c, b in zip(comps, before):
        a = ([int(x) for x in c.state_record_list], list(c.placed_workplace_id_record))
        if a != b:
            res.add("report", "C14.reporting_call_changed_component_log",
                    "after the chart helpers were called the log of component %s reads %s (%d entries), before %s (%d entries)"
                    % (c.ID, [SNAME.get(x, x) for x in a[0][-4:]], len(a[0]), [SNAME.get(x, x) for x in b[0][-4:]], len(b[0])), None)
            break


def run(spec):
    if spec.get("backward") is not None and spec.get("history") is None:
        from .. import build as B, scen
        scen.setup_run(spec.get("seed", 0))
        tr = scen.Trace()
        tr.model, tr.cfg = spec["model"], spec["cfg"]
        tr.built = B.build(spec["model"], spec.get("ranks"))
        tr.project = tr.built.project
        tr.absence = set(spec["cfg"].get("absence", []))
        tr.rec, tr.out = scen.simulate(tr.project, spec["cfg"], want_snap=False, backward=spec["backward"])
        tr.ix = tr.rec.ix
        tr.history, tr.log_offset = None, 0
        res = C.base_result(tr)
        res.count("backward_runs")
        if tr.out.ok:
            # the logs of a backward simulation (reversed or not): entry by entry the same relation
            check_edited_logs(res, tr, [], op="simulate")
        res.nontrivial = tr.rec.n_recorded >= 2
        return C.finish(res, tr)
    tr = C.run_forward(spec)
    res = C.base_result(tr)
    res.nontrivial = bool(check_trace(res, tr))
    if spec.get("edit") and tr.out.ok:
        tr.edit = spec["edit"]
        o, marks = C.apply_edit(tr, spec["edit"])
        res.count("edit_runs")
        if o.ok:
            check_edited_logs(res, tr, marks)
    if spec.get("remove") and tr.out.ok and not spec.get("edit") and getattr(tr, "history", None) is None:
        res.count("remove_runs")
        o = D.call(lambda: tr.project.remove_absence_time_list())
        if o.ok:
            check_edited_logs(res, tr, [], op="remove_absence")
    if spec.get("appended") is not None and tr.out.ok:
        # a run saved in two phases and stitched together by the library (read phase 1, append phase 2): the states the stitched
        # project holds stand in the same relation
        from .. import build as B, scen
        from .. import env
        scen.setup_run(spec.get("seed", 0))
        b2 = B.build(spec["model"], spec.get("ranks"))
        p2 = b2.project
        r1, o1 = scen.simulate(p2, dict(spec["cfg"], max_time=spec["appended"]), want_snap=False)
        ok = o1.ok and D.call(lambda: p2.write_simple_json("mem:c14a.json")).ok
        if ok:
            r2, o2 = scen.simulate(p2, dict(spec["cfg"], init_state=False, init_log=True), want_snap=False)
            ok = o2.ok and D.call(lambda: p2.write_simple_json("mem:c14b.json")).ok
        if ok:
            q = env.M.bp.BaseProject()
            if D.call(lambda: q.read_simple_json("mem:c14a.json")).ok and D.call(lambda: q.append_project_log_from_simple_json("mem:c14b.json")).ok:
                res.count("appended_project_checked")
                st_ = Static(spec["model"])
                tstate = {t.ID: int(t.state) for t in q.workflow.task_list}
                for c in q.product.component_list:
                    ts = [tstate[t] for t in st_.comp_tasks.get(c.ID, []) if t in tstate]
                    cs = int(c.state)
                    if len(ts) != len(st_.comp_tasks.get(c.ID, [])):
                        continue
                    if all(x == FINISHED for x in ts) != (cs == FINISHED):
                        res.add("appended", "C14.after_append_log.finished_iff_all_tasks_finished",
                                "after read_simple_json(phase 1) + append_project_log_from_simple_json(phase 2): component %s is %s, its tasks are %s"
                                % (c.ID, SNAME.get(cs, cs), [SNAME.get(x, x) for x in ts]), None)
                        break
                    if any(x == WORKING for x in ts) and cs != WORKING:
                        res.add("appended", "C14.after_append_log.task_working_component_not",
                                "after read + append: component %s is %s although a task is WORKING" % (c.ID, SNAME.get(cs, cs)), None)
                        break
    if tr.out.ok and not spec.get("edit") and not spec.get("remove"):
        # the finished logs themselves: entry by entry the component's log stands in the same relation to its tasks' logs
        check_edited_logs(res, tr, [], op="simulate")
    if tr.out.ok:
        check_reporting_is_read_only(res, tr)
    return C.finish(res, tr)
