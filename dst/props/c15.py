"""C15 - a run paused at any step and resumed gives exactly the uninterrupted result."""
from .. import build as B
from .. import director as D
from .. import env, gen as G, scen, seams
from . import common as C

ID = "C15"
LEVEL = "fault_enumeration"
DESIGN_REF = "DESIGN.md section 5, C15"
TECHNIQUE = "deterministic simulation with crash/restart faults: pause (max_time=k) at every step k of each seeded model, resume in memory or after a JSON restart into a new project, differential against the uninterrupted twin"
RULE = ("per seeded model (all features, project and individual absences part of the model) one uninterrupted reference run with "
        "limit M; then for every pause step k in [0, min(n+1, M)] (thorough; quick: 0, 1, n-1, n and sampled k) simulate(max_time=k) "
        "followed by simulate(max_time=M, initialize_state_info=False, initialize_log_info=False), in memory and through "
        "write_simple_json -> new BaseProject().read_simple_json -> resume, plus chains of 2-3 pauses; the complete dump (all logs, "
        "live state, costs, time, status) must equal the reference. evaluations = (model, pause point/chain, path) executions; "
        "non-trivial = paused while >=1 task was WORKING or READY with work left; distinct = (model digest, k, path)")
ASSUMPTIONS = ["pause points beyond the reference run's own limit M are not generated (not a pause of that run)",
               "after a JSON restart ranks are re-applied by ID so both twins run under the same schedule", "models <= 8 tasks"]
LEVEL_TEXT = ("Crash-point enumeration per sampled model: every step of the reference run is used as pause point (thorough tier), in "
              "memory and through a JSON restart; models themselves are sampled by seed.")
LEVEL_NOTE = "Trusted: dump comparison; the set of models is a seeded sample (the pause points per model are enumerated in the thorough tier)."
PROBES = ["pause_in_memory", "pause_via_json", "pause_chain", "pause_at_0", "pause_at_end", "pause_with_working_task",
          "pause_on_absence_step", "pause_after_finish", "reference_cut_off_by_limit", "with_subproject_task", "with_unit_time", "state_after_resume_compared"]


def budget(tier):
    return 2000 if tier == "quick" else 60000


def gen(rng, tier):
    focus = {}
    if rng.random() < 0.5:
        focus.update(comps=True, facilities=True)
    if rng.random() < 0.5:
        focus["proj_abs"] = True
    if rng.random() < 0.3:
        focus["res_abs"] = True
    if rng.random() < 0.35:
        # candidates ranked by the main workplace (the default worker rule): IDs read from a file are equal, not identical, strings
        focus.update(comps=True, facilities=True, mainwp=True, contention=rng.choice(["low", "mid"]))
    spec = C.forward_spec(rng, tier, focus, max_time=rng.choice([10, 25, 40, 40]))
    if rng.random() < 0.12:
        # a sub-project task (automatic, advancing by another amount than 1 per step: its sub-project has another unit time)
        m = spec["model"]
        n0 = len(m["tasks"])
        i = G.append_task(m, {"id": "tsub", "work": rng.choice([1.0, 2.0, 3.0, 1.5]), "rate": rng.choice([0.5, 0.25, 2.0, 1.5]),
                              "sub": {"file": None, "unit_s": rng.choice([60, 120, 30])}}, rng)
        for a in range(n0):
            if rng.random() < 0.3:
                m["deps"].append([a, i, rng.choice(spec["profile"]["kinds"])])
        spec["ranks"]["tsub"] = max(spec["ranks"].values()) + 1
    if rng.random() < 0.5:
        spec["model"]["share_id_objects"] = True  # main_workplace_id is the workplace's own ID object, as in `main_workplace_id=wp.ID`
    if rng.random() < 0.1:
        spec["cfg"]["unit_time"] = rng.choice([2, 3])  # the clock advances by 2 or 3 per step: a pause point is a time
    spec["absence_alias"] = rng.random() < 0.3
    spec["all_k"] = (tier == "thorough")
    spec["ks"] = [rng.randint(0, 30) for _ in range(3)]
    spec["chain"] = sorted(rng.randint(0, 20) for _ in range(rng.randint(2, 3)))
    spec["json_fraction"] = 0.5
    spec["via_seed"] = rng.randint(0, 1 << 30)
    return spec


def extra_candidates(spec):
    if spec.get("all_k"):
        c = dict(spec)
        c["all_k"] = False
        yield c
    ks = spec.get("ks", [])
    for i in range(len(ks)):
        c = dict(spec)
        c["ks"] = ks[:i] + ks[i + 1:]
        yield c
    if spec.get("chain"):
        c = dict(spec)
        c["chain"] = []
        yield c
    if spec.get("json_fraction", 0) not in (0, 1):
        for v in (0, 1):
            c = dict(spec)
            c["json_fraction"] = v
            yield c
    if spec.get("only") is None:
        for v in ("memory", "json"):
            c = dict(spec)
            c["only"] = v
            yield c


def full_dump(p, out):
    d = D.dump(p)
    d["_outcome"] = [out.ok, out.exc_type, out.where] if out is not None else None
    return d


def paused_run(spec, pauses, via):
    """simulate with the given pause points (ascending), resuming after each; returns (project, outcome, info)."""
    scen.setup_run(spec.get("seed", 0))
    model, cfg, ranks = spec["model"], spec["cfg"], spec.get("ranks")
    b = B.build(model, ranks)
    p = b.project
    info = {"working": False, "absence_step": False, "resume_snaps": []}
    first = True
    out = None
    for k in pauses:
        c = dict(cfg)
        c["max_time"] = k
        if not first:
            c["init_state"] = False
            c["init_log"] = False
            if spec.get("absence_alias"):
                c["_absence_obj"] = p.absence_time_list
        rec, out = scen.simulate(p, c, want_snap=not first)
        if not first and rec.steps and not rec.steps[0].synth_updated and rec.steps[0].ph.get("updated") is not None:
            info["resume_snaps"].append((rec.steps[0].t, rec.steps[0].ph["updated"]))
        first = False
        if not out.ok:
            return p, out, info
        if int(p.status) == 1:
            break
        if any(int(t.state) == D.WORKING or (int(t.state) == D.READY and t.remaining_work_amount > 0) for t in p.workflow.task_list):
            info["working"] = True
        if p.time in cfg.get("absence", []):
            info["absence_step"] = True
        if via == "json":
            new, ow, orr = scen.save_load(p, "mem:c15.json", ranks)
            if new is None:
                bad = ow if not ow.ok else orr
                return p, bad, info
            p = new
    c = dict(cfg)
    if not first:
        c["init_state"] = False
        c["init_log"] = False
        if spec.get("absence_alias"):
            c["_absence_obj"] = p.absence_time_list  # simulate(absence_time_list=project.absence_time_list, ...)
    rec, out = scen.simulate(p, c, want_snap=not first)
    if not first and rec.steps and not rec.steps[0].synth_updated and rec.steps[0].ph.get("updated") is not None:
        info["resume_snaps"].append((rec.steps[0].t, rec.steps[0].ph["updated"]))
    return p, out, info


def run(spec):
    import random

    res = C.campaign.Result()
    res.count("models")
    if any(t.get("sub") for t in spec["model"]["tasks"]):
        res.count("with_subproject_task")
    scen.setup_run(spec.get("seed", 0))
    ref = scen.run_forward(spec["model"], spec.get("ranks"), spec["cfg"], want_snap=True)
    ref_updated = {s_.t: s_.ph["updated"] for s_ in ref.rec.steps if s_.ph.get("updated") is not None and not s_.synth_updated}
    n = ref.rec.n_recorded
    res.steps = n
    M = spec["cfg"]["max_time"]
    dref = full_dump(ref.project, ref.out)
    res.digest = D.digest(dref)
    if not ref.out.ok:
        res.count("reference_sut_exception")
        return res
    if int(ref.project.status) == -1:
        res.count("reference_cut_off_by_limit")
    ut = spec["cfg"].get("unit_time", 1) or 1
    n_steps = n
    n = n * ut  # pause points are times
    if ut != 1:
        res.count("with_unit_time")
    hi = min(n + ut, M)
    if spec.get("all_k"):
        ks = list(range(0, hi + 1))
    else:
        ks = sorted(set([0, 1, max(0, n - ut), n] + [k % (hi + 1) for k in spec.get("ks", [])]))
        ks = [k for k in ks if k <= hi]
    vr = random.Random(spec.get("via_seed", 0))
    plans = []
    for k in ks:
        via = "json" if vr.random() < spec.get("json_fraction", 0.5) else "memory"
        if spec.get("all_k"):
            plans.append(([k], "memory"))
            if vr.random() < spec.get("json_fraction", 0.5):
                plans.append(([k], "json"))
        else:
            plans.append(([k], via))
    chain = [k for k in spec.get("chain", []) if k <= hi]
    if len(chain) >= 2:
        plans.append((sorted(set(chain)), "memory"))
        plans.append((sorted(set(chain)), "json"))
    only = spec.get("only")
    nontrivial = False
    executed = 0
    for pauses, via in plans:
        if only and via != only:
            continue
        p, out, info = paused_run(spec, pauses, via)
        executed += 1
        res.count("pause_via_json" if via == "json" else "pause_in_memory")
        if len(pauses) > 1:
            res.count("pause_chain")
        if pauses[0] == 0:
            res.count("pause_at_0")
        if pauses[-1] >= n:
            res.count("pause_at_end")
        if pauses[-1] > n:
            res.count("pause_after_finish")
        if info["working"]:
            res.count("pause_with_working_task")
            nontrivial = True
        if info["absence_step"]:
            res.count("pause_on_absence_step")
        # the state checks at the start of a step are idempotent: the step the resumed run re-enters starts from the very state the
        # uninterrupted run had after the update of that step (task states, remaining work, allocations, PERT times, placements)
        for t_, snap_ in info["resume_snaps"]:
            if t_ in ref_updated:
                res.count("state_after_resume_compared")
                sd = D.first_diff(ref_updated[t_], snap_)
                if sd is not None:
                    part = sd[0].strip("/").split("/")[0]
                    res.add("resume", "C15.state_after_resume_differs.%s.%s" % (via, part),
                            "pause at %s (%s): after the update of step %s the resumed run is in another state than the uninterrupted run at "
                            "%s: %r vs %r" % (pauses, via, t_, sd[0], sd[1], sd[2]), t_)
                    break
        d = full_dump(p, out)
        diff = D.first_diff(dref, d)
        if diff is not None:
            attrs = sorted(D.diff_attrs(dref, d))
            kind = "chain" if len(pauses) > 1 else "single"
            where = "at_0" if pauses == [0] else ("at_or_after_end" if pauses[0] >= n else "inside")
            res.add("resume", "C15.resume_differs.%s.%s.%s" % (via, kind, where),
                    "pause at %s (%s), resumed: result differs from the uninterrupted run (n=%d steps, limit %d) in %s; first at %s: %r vs %r"
                    % (pauses, via, n, M, attrs[:6], diff[0], diff[1], diff[2]), pauses[0])
    res.stats["evaluations_override"] = executed
    res.nontrivial = nontrivial
    return res
