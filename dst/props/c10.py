"""C10 - absence is dead time: no work, no cost, and it only stretches the schedule."""
from .. import director as D
from .. import scen
from .. import gen as G
from . import c02
from . import common as C
from .common import NONE, READY, WORKING, FINISHED, SNAME, Static, TOL

ID = "C10"
LEVEL = "exploration"
DESIGN_REF = "DESIGN.md section 5, C10"
TECHNIQUE = "deterministic simulation with stall faults: live oracle at every absence step + differential twin (absence run with absence steps removed vs. absence-free run)"
RULE = ("seeded models with project-wide absence lists (incl. step 0, consecutive runs, indices beyond the end, duplicates), both "
        "auto-task flag values, per-resource absence lists; live oracle at every project absence step (nothing newly allocated, "
        "non-auto remaining unchanged, auto progresses iff flag, all resources logged ABSENCE, zero cost at all six levels) and "
        "for individually absent resources (no contribution, no cost); differential twin for eligible models: "
        "simulate(absence=L)+remove_absence_time_list() == simulate() on every log, cost, time and status. Non-trivial = >=1 "
        "project absence step fired while some task was WORKING or READY with work left; distinct = scenario digests")
ASSUMPTIONS = ["differential clause only for models without individually absent resources and without component-bound automatic "
               "tasks, and with perform_auto_task_while_absence_time=False or no automatic task",
               "the absence run's max_time is stretched so that both twins execute the same number of working steps",
               "models <= 8 tasks"]
LEVEL_TEXT = ("Seeded stall-fault injection: the live state is checked at every absence step, and an absence-free twin execution "
              "of the same model and schedule must equal the absence run after its absence steps are deleted.")
LEVEL_NOTE = "Trusted: harness observers, dump comparison; sampling evidence only."
PROBES = ["absence_step_with_working_task", "absence_at_step_0", "consecutive_absence", "fault.absence_beyond_end",
          "auto_progress_in_absence", "auto_frozen_in_absence", "individual_absence_on_holder", "twin_compared",
          "twin_with_beyond_end", "twin_cut_off_by_max_time", "backward_runs", "random_progress_twin", "only_facilities_have_absence_lists", "backward_twin_compared"]


def budget(tier):
    return 5000 if tier == "quick" else 1500000


def gen(rng, tier):
    focus = {"proj_abs": True}
    twin = rng.random() < 0.6
    if twin:
        focus.update(res_abs=False, auto_comp=False)
    elif rng.random() < 0.6:
        focus["res_abs"] = True
    if rng.random() < 0.4:
        focus["auto"] = True
    random_twin = twin and rng.random() < 0.12
    if random_twin:
        focus.update(comps=True, auto=False, sd_zero=False)
    only_fac = (not twin) and rng.random() < 0.12
    if only_fac:
        focus.update(proj_abs=False, res_abs=True, comps=True, facilities=True)
    spec = C.forward_spec(rng, tier, focus)
    if only_fac:
        # the only absence information of the whole run is in the facilities' own lists
        for tm in spec["model"]["teams"]:
            for w in tm["workers"]:
                w.pop("abs", None)
        for wp in spec["model"]["wps"]:
            for f in wp["facs"]:
                if not f.get("abs") and rng.random() < 0.6:
                    f["abs"] = G.gen_absence(rng, 10, rng.randint(1, 4))
    if twin and rng.random() < 0.6 and not random_twin:
        spec["cfg"]["auto_flag"] = False
    if random_twin:
        # uncertain progress (standard deviations > 0) under a fixed random seed: a dead step must not consume random numbers,
        # so the absence run with its absence steps deleted is still exactly the absence-free run
        spec["random_twin"] = True
        spec["cfg"]["rule"] = rng.randrange(2, 9)
        for tm in spec["model"]["teams"]:
            for w in tm["workers"]:
                sd = {k: rng.choice([0.25, 0.5]) for k in w["skills"] if rng.random() < 0.7}
                if sd:
                    w["sd"] = sd
    if not twin and rng.random() < 0.3:
        spec["backward"] = {"due": rng.random() < 0.3, "reverse": rng.random() < 0.5}
    elif not twin:
        # the dead-time rules also hold for a call that follows an earlier one on the same object, with a worker's / facility's
        # own absence list edited in between, and for a model read from a file
        C.maybe_from_json(rng, C.maybe_abs_edit(rng, C.maybe_history(rng, spec, 0.25, reload_prob=0.2), 0.6), 0.1)
    if not twin and spec.get("backward") is None and spec.get("history") is None and not spec.get("from_json") and rng.random() < 0.15:
        spec["cfg"]["unit_time"] = rng.choice([2, 3])  # the clock advances by 2 or 3 per step; every absence list names times
    if twin and not random_twin and rng.random() < 0.2:
        spec["backward_twin"] = {"due": rng.random() < 0.3, "reverse": True}  # the twin clause on the result of a backward simulation
    elif twin and not random_twin and rng.random() < 0.15:
        # the absence run is made in two legs: cut off at step k under a calendar that agrees with the list up to k and names
        # other steps after k, then continued (state and logs kept) under the list itself
        k = rng.randint(1, 10)
        spec["cont_twin"] = {"k": k, "extra": sorted(set(k + rng.randint(0, 8) for _ in range(rng.randint(1, 3))))}
        if spec["cfg"].get("rule") == 4:
            spec["cfg"]["rule"] = 5
    elif twin and not random_twin and spec["cfg"].get("absence") and rng.random() < 0.15:
        # further absence steps are inserted into the result (around a step that is registered already) before all are deleted
        a = rng.choice(spec["cfg"]["absence"])
        spec["twin_insert"] = sorted(set([max(0, a - rng.randint(0, 2)), a + 1] + ([rng.randint(0, 12)] if rng.random() < 0.4 else [])))
    if not twin and not only_fac and spec.get("backward") is None and spec.get("history") is None and not spec.get("from_json") \
            and not spec.get("abs_edit") and spec["cfg"].get("unit_time", 1) == 1 and not spec["model"].get("ext_preds") and rng.random() < 0.12:
        # a run made in two parts (cut off at k and saved; restarted from the file with new logs and absence steps of its own;
        # the second log appended to the first project): the registered steps of the stitched logs are those of the two parts
        k = rng.randint(1, 8)
        spec["cfg"]["absence"] = [a for a in spec["cfg"].get("absence", []) if a < k]
        spec["appended"] = {"k": k, "absence2": G.gen_absence(rng, 10, rng.randint(1, 3))}
    return spec


def check_appended(res, spec):
    """The stitched-log scenario of C01 (c01.check_appended), judged by C10's bookkeeping clause: the registered absence steps are
    those of part 1 plus those of part 2 shifted by the length of part 1, and each of them is a zero-cost step."""
    from . import c01
    sub = C.campaign.Result()
    p = c01.check_appended(sub, spec)
    res.count("appended_logs_checked")
    for v in sub.violations:
        if v["key"] == "C01.after_append_log.registered_steps":
            res.add("appended", "C10.after_append_log.registered_steps", v["msg"], None)
            return
    if p is not None:
        for a in sorted(p.absence_time_list):
            if 0 <= a < len(p.cost_list) and p.cost_list[a] != 0.0:
                res.add("appended", "C10.after_append_log.registered_step_has_cost",
                        "stitched logs: step %d is registered as an absence step and project.cost_list[%d] is %r" % (a, a, p.cost_list[a]), a)
                return


def extra_candidates(spec):
    if spec.get("appended") is not None:
        c = dict(spec)
        c.pop("appended")
        yield c
    for c in C.history_candidates(spec):
        yield c
    if spec.get("backward") is not None:
        c = dict(spec)
        c.pop("backward")
        yield c
    if spec.get("backward_twin") is not None:
        c = dict(spec)
        c.pop("backward_twin")
        yield c
    for k_ in ("cont_twin", "twin_insert"):
        if spec.get(k_) is not None:
            c = dict(spec)
            c.pop(k_)
            yield c
    if spec.get("random_twin"):
        # fewer uncertain skills
        import copy
        for ti, tm in enumerate(spec["model"]["teams"]):
            for wi, w in enumerate(tm["workers"]):
                if w.get("sd"):
                    c = dict(spec)
                    c["model"] = copy.deepcopy(spec["model"])
                    c["model"]["teams"][ti]["workers"][wi].pop("sd")
                    yield c


def twin_eligible(spec):
    m = spec["model"]
    if spec["cfg"].get("unit_time", 1) != 1:
        return False  # (log indices are not times then; the twin is compared for the default clock only)
    if any(w.get("abs") for tm in m["teams"] for w in tm["workers"]):
        return False
    if any(f.get("abs") for wp in m["wps"] for f in wp["facs"]):
        return False
    autos = [t for t in m["tasks"] if t.get("auto")]
    if any(t.get("comp") is not None for t in autos):
        return False
    if spec["cfg"].get("auto_flag") and autos:
        return False
    # TSLACK / EST rank by absolute times (time + sums of work amounts).  Under the decimal alphabet the same
    # mathematical tie can round differently at different absolute times, so a shifted run may break a tie the
    # other way: floating-point noise, not a property violation.  The twin is compared under exact (dyadic)
    # arithmetic for these two rules, and for every alphabet under the seven time-independent rules.
    if spec["cfg"].get("rule", 0) in (0, 1) and spec.get("profile", {}).get("alphabet") != "dyadic":
        return False
    return True


def stretched_max_time(M, absence):
    """smallest T such that T minus the number of distinct absence steps below T equals M."""
    L = sorted(set(a for a in absence if a >= 0))
    T = M
    while True:
        n = sum(1 for a in L if a < T)
        if T - n >= M:
            return T
        T = M + n


def fifo_explains(spec, cfgA, cfgB, L, bwt=None):
    """Diagnosis: do the twins agree once the FIFO key ignores READY entries logged at absence steps?"""
    from .. import seams

    try:
        seams.FIFO_NEUTRAL = set(L)
        scen.setup_run(spec.get("seed", 0))
        bkw = {"backward": bwt} if bwt else {}
        ta = scen.run_forward(spec["model"], spec.get("ranks"), cfgA, want_snap=False, **bkw)
        seams.FIFO_NEUTRAL = set()
        scen.setup_run(spec.get("seed", 0))
        tb = scen.run_forward(spec["model"], spec.get("ranks"), cfgB, want_snap=False, **bkw)
    finally:
        seams.FIFO_NEUTRAL = None
    if not (ta.out.ok and tb.out.ok):
        return False
    o = D.call(lambda: ta.project.remove_absence_time_list())
    if not o.ok:
        return False
    da = D.dump(ta.project, live=False)
    db = D.dump(tb.project, live=False)
    da.pop("absence_time_list")
    db.pop("absence_time_list")
    return D.first_diff(da, db) is None


def check_live(res, tr):
    st = Static(tr.model)
    rec = tr.rec
    auto_flag = bool(tr.cfg.get("auto_flag", False))
    nontrivial = False
    prevR = rec.init_snap
    exact = tr.exact
    if 0 in tr.absence and rec.steps and rec.steps[0].ph.get("recorded") is not None:
        res.count("absence_at_step_0")
    for s in rec.steps:
        k = s.t
        U, A, Pf, R = (s.ph.get(x) for x in ("updated", "allocated", "performed", "recorded"))
        if R is None:
            break
        if k in tr.absence:
            if (k - 1) in tr.absence:
                res.count("consecutive_absence")
            if any(v[0] == WORKING or (v[0] == READY and v[1] > 0) for v in U["T"].values()):
                nontrivial = True
            if any(v[0] == WORKING for v in U["T"].values()):
                res.count("absence_step_with_working_task")
            base = prevR["T"] if prevR is not None else None
            for tid in st.order:
                for idx, kind in ((2, "worker"), (3, "facility")):
                    now = A["T"][tid][idx]
                    before = base[tid][idx] if base is not None else ()
                    new = [x for x in now if x not in before]
                    if new:
                        res.add("new_alloc", "C10.newly_allocated_in_absence." + kind,
                                "absence step %d: %s %s newly allocated to %s" % (k, kind, new, tid), k)
                    if R["T"][tid][idx] != now:
                        res.add("new_alloc", "C10.allocation_changed_in_absence." + kind,
                                "absence step %d: allocation of %s changed between allocation and record" % (k, tid), k)
                rem_u, rem_r = U["T"][tid][1], R["T"][tid][1]
                if st.auto(tid) and auto_flag and tid not in st.task_comp and U["T"][tid][0] == READY and A["T"][tid][0] != WORKING:
                    res.add("auto", "C10.auto_task_not_started_in_absence_although_flag_set",
                            "absence step %d with perform_auto_task_while_absence_time=True: automatic task %s is READY but is not "
                            "started (state %s after the allocation phase), so it cannot progress" % (k, tid, SNAME.get(A["T"][tid][0])), k)
                if st.auto(tid):
                    if A["T"][tid][0] == WORKING and auto_flag:
                        exp = rem_u - st.rate(tid)
                        res.count("auto_progress_in_absence")
                    else:
                        exp = rem_u
                        if A["T"][tid][0] == WORKING:
                            res.count("auto_frozen_in_absence")
                    if not c02.close(rem_r, exp, exact):
                        res.add("auto", "C10.auto_task_progress_in_absence.flag_%s" % auto_flag,
                                "absence step %d: automatic task %s (%s) went from %r to %r with perform_auto_task_while_absence_time=%s"
                                % (k, tid, SNAME.get(A["T"][tid][0]), rem_u, rem_r, auto_flag), k)
                elif rem_r != rem_u:
                    res.add("progress", "C10.progress_in_absence", "absence step %d: non-automatic task %s went from %r to %r"
                            % (k, tid, rem_u, rem_r), k)
            for kind, Rm in (("worker", R["W"]), ("facility", R["F"])):
                for rid, (state, assigned) in Rm.items():
                    if state != D.ABSENCE:
                        res.add("state", "C10.live_state_not_ABSENCE." + kind, "absence step %d: %s %s has live state %d" % (k, kind, rid, state), k)
        prevR = R
    # logs at absence indices
    steps = C.full_steps(rec)
    p = tr.project
    off = getattr(tr, "log_offset", 0)
    for i0, s in enumerate(steps):
        i = off + i0  # (logs kept from an earlier call come first)
        k = s.t
        if k in tr.absence:
            for kind, objs in (("worker", tr.ix.workers), ("facility", tr.ix.facs)):
                for r in objs:
                    if i < len(r.state_record_list) and int(r.state_record_list[i]) != D.ABSENCE:
                        res.add("log_state", "C10.logged_state_not_ABSENCE." + kind, "absence step %d: %s %s is logged %d"
                                % (k, kind, r.ID, int(r.state_record_list[i])), k)
                    if i < len(r.cost_list) and r.cost_list[i] != 0:
                        res.add("cost", "C10.cost_in_absence." + kind, "absence step %d: %s %s is charged %r" % (k, kind, r.ID, r.cost_list[i]), k)
            for kind, objs in (("team", tr.ix.teams), ("workplace", tr.ix.wps), ("organization", [p.organization]), ("project", [p])):
                for g in objs:
                    if i < len(g.cost_list) and g.cost_list[i] != 0:
                        res.add("cost", "C10.cost_in_absence." + kind, "absence step %d: %s cost is %r" % (k, kind, g.cost_list[i]), k)
        else:
            for kind, objs, absent in (("worker", tr.ix.workers, st.w_absent), ("facility", tr.ix.facs, st.f_absent)):
                for r in objs:
                    if absent(r.ID, k):
                        if s.ph["recorded"]["W" if kind == "worker" else "F"][r.ID][1]:
                            res.count("individual_absence_on_holder")
                        if i < len(r.cost_list) and r.cost_list[i] != 0:
                            res.add("cost", "C10.cost_of_individually_absent." + kind, "step %d: %s %s is absent but charged %r"
                                    % (k, kind, r.ID, r.cost_list[i]), k)
    return nontrivial


def run(spec):
    if spec.get("backward") is not None:
        # the same dead-time rules hold for the steps of a backward simulation (the inner run is observed)
        from .. import build as B
        scen.setup_run(spec.get("seed", 0))
        tr = scen.Trace()
        tr.model, tr.cfg = spec["model"], spec["cfg"]
        tr.built = B.build(spec["model"], spec.get("ranks"))
        tr.project = tr.built.project
        tr.absence = set(spec["cfg"].get("absence", []))
        bw = dict(spec["backward"])
        bw["reverse"] = False  # keep log index == step time for the log clauses
        tr.rec, tr.out = scen.simulate(tr.project, spec["cfg"], backward=bw)
        tr.ix = tr.rec.ix
        tr.history, tr.log_offset = None, 0
        tr.exact = spec.get("profile", {}).get("alphabet") == "dyadic"
        res = C.base_result(tr)
        res.count("backward_runs")
        res.nontrivial = bool(check_live(res, tr))
        return C.finish(res, tr)
    tr = C.run_forward(spec)
    tr.exact = spec.get("profile", {}).get("alphabet") == "dyadic"
    res = C.base_result(tr)
    if spec.get("appended") is not None and tr.out.ok:
        check_appended(res, spec)
    if spec.get("random_twin"):
        # the live oracles compute contributions from the skill means: only the twin comparison applies to uncertain progress
        res.count("random_progress_twin")
        nt = any(s.t in tr.absence and s.ph.get("recorded") is not None for s in tr.rec.steps)
    else:
        nt = check_live(res, tr)
        # individual absence contributes nothing: the conservation oracle of C02, reported under C10
        sub = C.campaign.Result()
        c02.check_trace(sub, tr, clause_prefix="C10")
        for v in sub.violations:
            if v["clause"] == "contribution":
                res.add(v["clause"], v["key"], v["msg"], v["step"])
    if twin_eligible(spec) and tr.out.ok and spec["cfg"].get("absence"):
        L = spec["cfg"]["absence"]
        M = spec["cfg"]["max_time"]
        # twin A: absence run with stretched limit, then delete the absence steps
        cfgA = dict(spec["cfg"])
        cfgA["max_time"] = stretched_max_time(M, L)
        bwt = spec.get("backward_twin")
        if bwt is not None and bwt.get("due") and spec["cfg"].get("auto_flag"):
            bwt = dict(bwt, due=False)  # the due-time helpers are automatic tasks: with the flag set they legitimately work in absence steps
        if bwt is not None:
            res.count("backward_twin_compared")
        scen.setup_run(spec.get("seed", 0))
        ct = spec.get("cont_twin") if bwt is None else None
        if ct is not None and spec["cfg"].get("rule") != 4 and ct["k"] < cfgA["max_time"]:
            from .. import build as B
            res.count("continued_twin_compared")
            ta = scen.Trace()
            ta.built = B.build(spec["model"], spec.get("ranks"))
            ta.project = ta.built.project
            L1 = sorted(set([a for a in L if a < ct["k"]] + list(ct["extra"])))
            rec1_, out1_ = scen.simulate(ta.project, dict(cfgA, max_time=ct["k"], absence=L1), want_snap=False)
            ta.rec, ta.out = scen.simulate(ta.project, dict(cfgA, init_state=False, init_log=False), want_snap=False)
            if not out1_.ok:
                ta.out = out1_
        else:
            ct = None
            ta = scen.run_forward(spec["model"], spec.get("ranks"), cfgA, want_snap=False, **({"backward": bwt} if bwt else {}))
        cfgB = dict(spec["cfg"])
        cfgB["absence"] = []
        scen.setup_run(spec.get("seed", 0))
        tb = scen.run_forward(spec["model"], spec.get("ranks"), cfgB, want_snap=False, **({"backward": bwt} if bwt else {}))
        if ta.out.ok and tb.out.ok:
            ti = spec.get("twin_insert") if (ct is None and bwt is None) else None
            if ti:
                res.count("twin_with_inserted_steps")
                oi = D.call(lambda: ta.project.insert_absence_time_list(list(ti)))
                if not oi.ok:
                    ti = None  # (C18's business)
            n_before = ta.project.time
            o = D.call(lambda: ta.project.remove_absence_time_list())
            res.count("twin_compared")
            beyond = any(a >= n_before for a in L)
            if beyond:
                res.count("twin_with_beyond_end")
            if int(tb.project.status) == -1:
                res.count("twin_cut_off_by_max_time")
            if not o.ok:
                res.add("twin", "C10.remove_absence_raises.%s@%s" % (o.exc_type, o.where), "remove_absence_time_list raised %s(%s)" % (o.exc_type, o.msg), None)
            else:
                da = D.dump(ta.project, live=False)
                db = D.dump(tb.project, live=False)
                da.pop("absence_time_list")
                db.pop("absence_time_list")
                diff = D.first_diff(da, db)
                if diff is not None:
                    attrs = D.diff_attrs(da, db)
                    rule = spec["cfg"].get("rule", 0)
                    cause = "rule_%s" % ["TSLACK", "EST", "SPT", "LPT", "FIFO", "LRPT", "SRPT", "LWRPT", "SWRPT"][rule]
                    if rule == 4 and fifo_explains(spec, cfgA, cfgB, L, bwt):
                        cause = "FIFO_counts_absence_steps_as_waiting"
                    if bwt is not None and not cause.startswith("FIFO_counts"):
                        cause += ".backward"
                    if spec.get("random_twin") and not cause.startswith("FIFO_counts"):
                        cause += ".uncertain_progress_fixed_seed"
                    if ct is not None and not cause.startswith("FIFO_counts"):
                        cause += ".absence_run_in_two_legs"
                    if ti and not cause.startswith("FIFO_counts"):
                        cause += ".steps_inserted_before_removal"
                    res.add("twin", "C10.twin_differs." + cause,
                            "simulate(absence=%s)+remove_absence_time_list() differs from simulate() in %s; first at %s: %r vs %r"
                            % (L, sorted(attrs), diff[0], diff[1], diff[2]), None)
    if not tr.absence and any(f.get("abs") for wp in tr.model["wps"] for f in wp["facs"]) \
            and not any(w.get("abs") for tm in tr.model["teams"] for w in tm["workers"]):
        res.count("only_facilities_have_absence_lists")
        nt = nt or any(st_.f_absent(f_, s.t) and s.ph.get("recorded") is not None and s.ph["recorded"]["F"][f_][1]
                       for st_ in [Static(tr.model)] for s in tr.rec.steps for f_ in st_.fac)
    res.nontrivial = bool(nt)
    return C.finish(res, tr)
