"""C17 - backward simulation leaves the model intact and respects dependencies."""
from .. import build as B
from .. import director as D
from .. import env, gen as G, scen, seams
from . import common as C
from .common import Static

ID = "C17"
LEVEL = "fault_enumeration"
DESIGN_REF = "DESIGN.md section 5, C17"
TECHNIQUE = "deterministic simulation with exception injection: an InjectedFault is raised at every (step, phase) of the inner run of backward_simulate in turn; structural-identity, no-helper-left and forward-twin oracles after return or raise"
RULE = ("per seeded model (due times, absences, all dependency kinds, conveyor links) backward_simulate with both settings of "
        "considering_due_time_of_tail_tasks and reverse_log_information is executed once cleanly, once with a time-limit failure, and "
        "with an InjectedFault raised from inside the collaborator call that marks phase p of step k for every (k, p) of the clean run "
        "(thorough; quick: the first, the last and sampled points). After each return/raise: every task's input/output lists and every "
        "workplace's input/output lists are the same list objects with the same pairs in the same order, workflow.task_list is "
        "unchanged, no helper task is left, and a following forward simulate() equals a twin that never ran backward; for clean runs "
        "the (forward-read) logs satisfy the FS ordering clause and have one entry per step. evaluations = backward executions; "
        "non-trivial = fault injected before the last step of a model with >=1 dependency, or a clean run with >=1 FS edge")
ASSUMPTIONS = ["exceptions are injected at the five phase instants of each step (init, updated, allocated, performed, recorded), "
               "not between arbitrary statements", "models <= 8 tasks"]
LEVEL_TEXT = ("Fault-point enumeration per sampled model: the exception is injected at every observable instant of the inner run "
              "(thorough tier); the set of models is a seeded sample.")
LEVEL_NOTE = "Trusted: structural snapshot by object identity; harness observers as injection points."
PROBES = ["clean_run", "time_limit_run", "injected_run", "inject_phase_init", "inject_phase_updated", "inject_phase_allocated",
          "inject_phase_performed", "inject_phase_recorded", "with_due_helper_tasks", "with_conveyor", "fs_order_checked", "reverse_off", "inject_base_exception"]


def budget(tier):
    return 1500 if tier == "quick" else 40000


def gen(rng, tier):
    focus = {}
    if rng.random() < 0.4:
        focus.update(comps=True, facilities=True, conveyor=rng.random() < 0.6)
    r_ = rng.random()
    if r_ < 0.3:
        focus["kinds"] = [0]
    elif r_ < 0.6:
        # finish-to-start links mixed with one other kind, densely: in the reversed network a task's successors of both kinds
        # are the entries of its input list
        focus["kinds"] = [0, rng.choice([1, 2, 3])]
        focus["density"] = 0.5
        focus["contention"] = "low"
    spec = C.forward_spec(rng, tier, focus, max_time=rng.choice([15, 30, 40]))
    for t in spec["model"]["tasks"]:
        if rng.random() < 0.6:
            t["due"] = rng.randint(0, 10)
    spec["due"] = rng.random() < 0.6
    spec["reverse"] = rng.random() < 0.6
    spec["all_points"] = (tier == "thorough")
    spec["points"] = [[rng.randint(0, 12), rng.choice(["init", "updated", "allocated", "performed", "recorded"])] for _ in range(3)]
    spec["limit"] = rng.randint(0, 6)
    spec["base_exc"] = rng.random() < 0.6
    spec["warn_error"] = rng.random() < 0.4
    spec["refused"] = rng.random() < 0.4
    spec["defaults_after"] = rng.random() < 0.4
    return spec


def extra_candidates(spec):
    if spec.get("all_points"):
        c = dict(spec)
        c["all_points"] = False
        yield c
    pts = spec.get("points", [])
    for i in range(len(pts)):
        c = dict(spec)
        c["points"] = pts[:i] + pts[i + 1:]
        yield c
    for k in ("due", "reverse", "warn_error", "refused", "defaults_after"):
        if spec.get(k):
            c = dict(spec)
            c[k] = False
            yield c
    if spec.get("only") is None:
        for v in ("clean", "limit", "inject"):
            c = dict(spec)
            c["only"] = v
            yield c


def structure(p):
    """Identity + content snapshot of everything backward_simulate rewires."""
    s = {"task_list": (id(p.workflow.task_list), [id(t) for t in p.workflow.task_list]), "tasks": {}, "wps": {}}
    for t in p.workflow.task_list:
        s["tasks"][t.ID] = (
            id(t.input_task_list), [(id(a), int(d)) for a, d in t.input_task_list],
            id(t.output_task_list), [(id(a), int(d)) for a, d in t.output_task_list],
        )
    for w in p.organization.workplace_list:
        s["wps"][w.ID] = (id(w.input_workplace_list), [id(x) for x in w.input_workplace_list],
                          id(w.output_workplace_list), [id(x) for x in w.output_workplace_list])
    return s


def compare_structure(res, before, p, what, tag):
    after = structure(p)
    if after["task_list"] != before["task_list"]:
        names = [getattr(t, "name", "?") for t in p.workflow.task_list]
        helper = any(t.name == "auto" and id(t) not in before["task_list"][1] for t in p.workflow.task_list)
        res.add("structure", "C17.task_list_changed.%s%s" % (tag, ".helper_left" if helper else ""),
                "%s: workflow.task_list changed (now %s)" % (what, names), None)
    for tid, b in before["tasks"].items():
        a = after["tasks"].get(tid)
        if a is None:
            continue
        for idx, name in ((0, "input_task_list"), (2, "output_task_list")):
            if a[idx] != b[idx]:
                res.add("structure", "C17.list_object_replaced.%s.%s" % (name, tag), "%s: %s of task %s is a different list object than before" % (what, name, tid), None)
            if a[idx + 1] != b[idx + 1]:
                res.add("structure", "C17.list_content_changed.%s.%s" % (name, tag), "%s: %s of task %s has %d entries, before %d (or other objects/order)"
                        % (what, name, tid, len(a[idx + 1]), len(b[idx + 1])), None)
    for wid, b in before["wps"].items():
        a = after["wps"].get(wid)
        if a is None:
            continue
        for idx, name in ((0, "input_workplace_list"), (2, "output_workplace_list")):
            if a[idx] != b[idx] or a[idx + 1] != b[idx + 1]:
                res.add("structure", "C17.workplace_links_changed.%s.%s" % (name, tag), "%s: %s of workplace %s differs from before the call" % (what, name, wid), None)
    for t in p.workflow.task_list:
        for attr in ("dummy_output_task_list", "dummy_input_task_list"):
            if hasattr(t, attr):
                res.add("structure", "C17.leftover_attribute.%s" % tag, "%s: task %s still has attribute %s" % (what, t.ID, attr), None)
        for a, d in list(t.input_task_list) + list(t.output_task_list):
            if id(a) not in before["task_list"][1]:
                res.add("structure", "C17.dangling_helper_reference.%s" % tag, "%s: task %s still references helper task %r" % (what, t.ID, getattr(a, "name", a)), None)


def one_backward(spec, inject=None, limit=None, warn_error=False):
    scen.setup_run(spec.get("seed", 0))
    b = B.build(spec["model"], spec.get("ranks"))
    p = b.project
    seams.attach(p)
    before = structure(p)
    cfg = dict(spec["cfg"])
    if limit is not None:
        cfg["max_time"] = limit
    D.WARNINGS_AS_ERRORS[0] = bool(warn_error)
    try:
        rec, out = scen.simulate(p, cfg, inject=inject, want_snap=False,
                                 backward={"due": spec.get("due", False), "reverse": spec.get("reverse", True)})
    finally:
        D.WARNINGS_AS_ERRORS[0] = False
    return p, before, rec, out


def check_after(res, spec, p, before, what, tag, dtwin):
    compare_structure(res, before, p, what, tag)
    if spec.get("defaults_after") and tag == "clean":
        # ... also when that later simulate() is called with default arguments only (no absence list given: none applies)
        mt = spec["cfg"].get("max_time", 40)
        scen.setup_run(spec.get("seed", 0))
        b0 = B.build(spec["model"], spec.get("ranks"))
        o0 = D.call(lambda: b0.project.simulate(max_time=mt), D.Recorder(b0.project, want_snap=False))
        o1 = D.call(lambda: p.simulate(max_time=mt), D.Recorder(p, want_snap=False))
        d0, d1 = D.dump(b0.project), D.dump(p)
        d0["_outcome"], d1["_outcome"] = [o0.ok, o0.exc_type, o0.where], [o1.ok, o1.exc_type, o1.where]
        dd = D.first_diff(d0, d1)
        res.count("forward_with_default_arguments_compared")
        if dd is not None:
            res.add("twin", "C17.forward_with_default_arguments_after_backward_differs",
                    "%s: a following simulate(max_time=%d) with default arguments differs from the same call on a project that never ran "
                    "backward at %s: %r vs %r" % (what, mt, dd[0], dd[1], dd[2]), None)
    rec, out = scen.simulate(p, spec["cfg"], want_snap=False)
    d = D.dump(p)
    d["_outcome"] = [out.ok, out.exc_type, out.where]
    d.pop("absence_time_list", None)
    diff = D.first_diff(dtwin, d)
    if diff is not None:
        res.add("twin", "C17.forward_after_backward_differs.%s" % tag,
                "%s: a following forward simulate() differs from a twin that never ran backward at %s: %r vs %r" % (what, diff[0], diff[1], diff[2]), None)


def run(spec):
    res = C.campaign.Result()
    res.count("models")
    m = spec["model"]
    st = Static(m)
    if any(wp.get("inputs") for wp in m.get("wps", [])):
        res.count("with_conveyor")
    # forward twin that never ran backward
    scen.setup_run(spec.get("seed", 0))
    tw = scen.run_forward(m, spec.get("ranks"), spec["cfg"], want_snap=False)
    dtwin = D.dump(tw.project)
    dtwin["_outcome"] = [tw.out.ok, tw.out.exc_type, tw.out.where]
    dtwin.pop("absence_time_list", None)
    only = spec.get("only")
    executed = 0
    nontrivial = False
    # 1. clean run
    p, before, rec, out = one_backward(spec)
    n_clean = rec.n_recorded
    res.steps = n_clean
    points = []
    for s in rec.steps:
        for ph in ("updated", "allocated", "performed", "recorded"):
            if ph in s.ph:
                points.append((s.t, ph))
    points.insert(0, (0, "init"))
    if only in (None, "clean"):
        executed += 1
        res.count("clean_run")
        if not spec.get("reverse"):
            res.count("reverse_off")
        if spec.get("due") and len(set(t.get("due", -1) for i, t in enumerate(m["tasks"]) if not st.succs[t["id"]])) > 1:
            res.count("with_due_helper_tasks")
        what = "backward_simulate(due=%s, reverse=%s) %s" % (spec.get("due"), spec.get("reverse"), "returned" if out.ok else "raised %s" % out.exc_type)
        if not out.ok:
            res.add("raises", "C17.backward_raises.%s@%s" % (out.exc_type, out.where), "%s: %s" % (what, out.msg), None)
        else:
            ix = D.index(p)
            lens = D.log_lengths(ix)
            if len(set(lens.values())) > 1 or (lens and set(lens.values()).pop() != n_clean):
                res.add("length", "C17.log_length", "%s: %d steps were simulated but log lengths are %s" % (what, n_clean, sorted(set(lens.values()))), None)
            if int(p.status) == 1:
                for (a, b_, k) in m["deps"]:
                    if k != G.FS:
                        continue
                    pt, tt = ix.task.get(st.order[a]), ix.task.get(st.order[b_])
                    if pt is None or tt is None:
                        continue  # the task list itself was damaged: reported by the structure comparison below
                    lp = [int(x) for x in pt.state_record_list]
                    lt = [int(x) for x in tt.state_record_list]
                    if not spec.get("reverse"):
                        lp, lt = lp[::-1], lt[::-1]
                    wp_ = [i for i, x in enumerate(lp) if x == D.WORKING]
                    wt_ = [i for i, x in enumerate(lt) if x == D.WORKING]
                    res.count("fs_order_checked")
                    nontrivial = True
                    if wp_ and wt_ and min(wt_) <= max(wp_):
                        res.add("order", "C17.fs_order_in_backward_logs", "%s: task %s is logged WORKING at step %d although its FS predecessor %s is "
                                "still logged WORKING at step %d (forward reading order)" % (what, tt.ID, min(wt_), pt.ID, max(wp_)), min(wt_))
        check_after(res, spec, p, before, what, "clean", dtwin)
    # 2. time-limit failure
    if only in (None, "limit"):
        lim = min(spec.get("limit", 2), max(0, n_clean - 1))
        p, before, rec, out = one_backward(spec, limit=lim)
        executed += 1
        res.count("time_limit_run")
        what = "backward_simulate(max_time=%d) that %s" % (lim, "returned with status %d" % int(p.status) if out.ok else "raised %s" % out.exc_type)
        check_after(res, spec, p, before, what, "time_limit", dtwin)
        if spec.get("warn_error"):
            # the same run in a process where warnings are errors (python -W error): the library's "Time Over" warning is then
            # an exception raised inside the inner run - one more way of being aborted at some step
            p, before, rec, out = one_backward(spec, limit=lim, warn_error=True)
            executed += 1
            res.count("time_limit_run_with_warnings_as_errors")
            what = "backward_simulate(max_time=%d) with warnings turned into errors, which %s" % (lim, "returned" if out.ok else "raised %s" % out.exc_type)
            check_after(res, spec, p, before, what, "time_limit_warning_as_error", dtwin)
    # 2b. a call the library refuses with its documented exception (unsupported task_performed_mode)
    if only in (None, "limit") and spec.get("refused"):
        scen.setup_run(spec.get("seed", 0))
        b_ = B.build(spec["model"], spec.get("ranks"))
        p = b_.project
        seams.attach(p)
        before = structure(p)
        o_r = D.call(lambda: p.backward_simulate(task_performed_mode="single-worker", max_time=spec["cfg"].get("max_time", 40),
                                                 considering_due_time_of_tail_tasks=bool(spec.get("due"))), D.Recorder(p, want_snap=False))
        executed += 1
        res.count("refused_call_run")
        check_after(res, spec, p, before, "backward_simulate(task_performed_mode='single-worker') that %s" % ("returned" if o_r.ok else "raised %s" % o_r.exc_type),
                    "refused_call", dtwin)
    # 3. injected exceptions
    if only in (None, "inject"):
        if spec.get("all_points"):
            sel = points
        else:
            sel = []
            if points:
                sel = [points[0], points[min(1, len(points) - 1)], points[-1]]
                for (k, ph) in spec.get("points", []):
                    cand = [q for q in points if q[1] == ph]
                    if cand:
                        sel.append(cand[k % len(cand)])
            sel = sorted(set(sel), key=lambda q: (q[0], ["init", "updated", "allocated", "performed", "recorded"].index(q[1])))
        for n_inj, (k, ph) in enumerate(sel):
            base_exc = bool(spec.get("base_exc")) and n_inj % 2 == 1  # every second point aborts with a BaseException
            p, before, rec, out = one_backward(spec, inject={"step": k, "phase": ph, "base": base_exc})
            if base_exc:
                res.count("inject_base_exception")
            executed += 1
            res.count("injected_run")
            res.count("inject_phase_" + ph)
            if not out.injected:
                res.count("injection_did_not_fire")
            if m["deps"] and k < max(0, n_clean - 1):
                nontrivial = True
            what = "backward_simulate aborted by %s at step %d phase %s" % ("a BaseException (like KeyboardInterrupt)" if base_exc else "an exception", k, ph)
            check_after(res, spec, p, before, what, ("injected_base_" if base_exc else "injected_") + ph, dtwin)
            if res.violations:
                break
    res.stats["evaluations_override"] = executed
    res.nontrivial = nontrivial
    res.digest = D.digest(dtwin)
    return res
