"""C03 - resource allocation is exclusive and two-way consistent at every step."""
from . import common as C
from .common import NONE, READY, WORKING, FINISHED, SNAME, Static
from .. import director as D

ID = "C03"
LEVEL = "exploration"
DESIGN_REF = "DESIGN.md section 5, C03"
TECHNIQUE = "deterministic simulation: contention-heavy seeded models, allocation invariants on live snapshots and logs at every step"
RULE = ("seeded contention-heavy models with/without facilities, solo resources, fixed-ID lists, project and individual "
        "absences, all nine task rules; invariants at the 'updated', 'allocated' and 'recorded' instants of every step and "
        "on the ID/state logs. Non-trivial = some step had a resource holding a task; distinct = scenario digests")
ASSUMPTIONS = ["models <= 8 tasks, <= 9 workers", "unit_time = 1"]
LEVEL_TEXT = ("Seeded exploration under resource contention; exclusivity, two-way consistency, holder states, resource "
              "state rule and release-on-finish are evaluated at three instants of every step and on the logs.")
LEVEL_NOTE = "Trusted: harness observers; sampling evidence only."
PROBES = ["worker_held", "facility_held", "released_on_finish", "absent_holder", "multi_worker_task"]


def budget(tier):
    return 12000 if tier == "quick" else 2500000


def gen(rng, tier):
    focus = {"contention": rng.choice(["mid", "high", "high", "low"])}
    if rng.random() < 0.5:
        focus.update(comps=True, facilities=True)
    if rng.random() < 0.4:
        focus["solo"] = True
    if rng.random() < 0.3:
        focus["fix"] = True
    if rng.random() < 0.4:
        focus["res_abs"] = True
    spec = C.forward_spec(rng, tier, focus)
    nfs_ = [t for t in spec["model"]["tasks"] if t.get("nf") and not t.get("auto")]
    if nfs_ and rng.random() < 0.25:
        # a sub-project task that is not automatic: it takes workers and facilities like any other task
        t_ = rng.choice(nfs_)
        t_["sub"] = {"file": None, "unit_s": 60}
        t_["auto"] = False
        spec = C.maybe_history(rng, spec, 0.8, reload_prob=0.7)
    else:
        spec = C.maybe_history(rng, spec, 0.3)
    h_ = spec.get("history")
    if h_ is not None and rng.random() < 0.4:
        # cut off while tasks hold resources, then run again with the state reset and the logs kept
        h_["state"], h_["log"], h_["k"] = True, False, rng.randint(1, 5)
    spec = C.maybe_from_json(rng, spec)
    if spec.get("history") is None and not spec.get("from_json") and rng.random() < 0.06:
        # freshly built objects simulated without the state initialisation (a hand-prepared in-progress project)
        spec["cfg"]["init_state"] = False
        spec["cfg"]["init_log"] = rng.random() < 0.5
    elif rng.random() < 0.06:
        spec["model"]["worker_copies"] = "share_all"  # workers are shallow copies of one template object (sharing its empty lists at first)
    return spec


def extra_candidates(spec):
    return C.history_candidates(spec)


def check_snapshot(res, st, sn, label, k, phase, absence, held_before_finish=None):
    T, W, F = sn["T"], sn["W"], sn["F"]
    for kind, R, idx in (("worker", W, 2), ("facility", F, 3)):
        for rid, (state, assigned) in R.items():
            if len(assigned) > 1:
                res.add("exclusive", "C03.exclusive.%s" % kind, "%s %s is assigned to %d tasks %s at %s"
                        % (kind, rid, len(assigned), list(assigned), label), k)
            if len(set(assigned)) != len(assigned):
                res.add("exclusive", "C03.duplicate_assignment.%s" % kind, "%s %s lists a task twice at %s" % (kind, rid, label), k)
            for tid in assigned:
                if tid not in T or rid not in T[tid][idx]:
                    res.add("two_way", "C03.two_way.%s_lists_task" % kind,
                            "%s %s lists task %s as assigned but the task does not list it (%s)" % (kind, rid, tid, label), k)
                if assigned:
                    res.count("%s_held" % kind)
        for tid, tv in T.items():
            lst = tv[idx]
            if len(set(lst)) != len(lst):
                res.add("two_way", "C03.duplicate_allocation.%s" % kind, "task %s lists a %s twice at %s" % (tid, kind, label), k)
            for rid in lst:
                if rid not in R or tid not in R[rid][1]:
                    res.add("two_way", "C03.two_way.task_lists_%s" % kind,
                            "task %s lists %s %s as allocated but the %s does not list the task (%s)"
                            % (tid, kind, rid, kind, label), k)
    for tid, tv in T.items():
        s = tv[0]
        if (tv[2] or tv[3]) and s not in (READY, WORKING):
            res.add("holder_state", "C03.holder_state.%s" % SNAME.get(s, s),
                    "task %s is %s but holds workers %s facilities %s at %s" % (tid, SNAME.get(s, s), list(tv[2]), list(tv[3]), label), k)
        if len(tv[2]) > 1:
            res.count("multi_worker_task")
    if phase in ("allocated", "performed", "recorded"):
        proj_abs = k in absence
        for kind, R, absent in (("worker", W, st.w_absent), ("facility", F, st.f_absent)):
            for rid, (state, assigned) in R.items():
                if proj_abs or absent(rid, k):
                    exp = D.ABSENCE
                    if assigned:
                        res.count("absent_holder")
                elif assigned:
                    exp = D.R_WORKING
                else:
                    exp = D.FREE
                if state != exp:
                    res.add("resource_state", "C03.resource_state.%s.exp%d_got%d" % (kind, exp, state),
                            "%s %s has state %d at %s, expected %d (assigned=%s, project absence=%s, own absence=%s)"
                            % (kind, rid, state, label, exp, list(assigned), proj_abs, absent(rid, k)), k)


def check_trace(res, tr):
    st = Static(tr.model)
    rec = tr.rec
    prev_state = {}
    any_held = False
    for label, k, ph, sn in C.walk(rec):
        if ph == "init":
            for tid, tv in sn["T"].items():
                prev_state[tid] = tv[0]
                hist = getattr(tr, "history", None)
                if (tv[2] or tv[3]) and (hist is None or hist["state"]):
                    res.add("holder_state", "C03.holds_after_initialize", "task %s holds resources right after initialize" % tid, -1)
            continue
        check_snapshot(res, st, sn, label, k, ph, tr.absence)
        for tid, tv in sn["T"].items():
            if tv[0] == FINISHED and prev_state.get(tid) != FINISHED:
                res.count("released_on_finish")
                if tv[2] or tv[3]:
                    res.add("release", "C03.not_released_on_finish", "task %s became FINISHED at %s but still lists %s %s"
                            % (tid, label, list(tv[2]), list(tv[3])), k)
                for kind, R in (("worker", sn["W"]), ("facility", sn["F"])):
                    for rid, (state, assigned) in R.items():
                        if tid in assigned:
                            res.add("release", "C03.not_released_on_finish.%s" % kind,
                                    "task %s became FINISHED at %s but %s %s still lists it" % (tid, label, kind, rid), k)
            prev_state[tid] = tv[0]
        if any(v[1] for v in sn["W"].values()):
            any_held = True
    # the logs: WORKING exactly when holding a task and not absent
    steps = C.full_steps(rec)
    off = getattr(tr, "log_offset", 0)
    for kind, objs, absent in (("worker", tr.ix.workers, st.w_absent), ("facility", tr.ix.facs, st.f_absent)):
        for r in objs:
            srl, atr = r.state_record_list[off:], r.assigned_task_id_record[off:]
            n = min(len(srl), len(atr), len(steps))
            for i in range(n):
                k = steps[i].t
                holds = bool(atr[i])
                is_abs = (k in tr.absence) or absent(r.ID, k)
                logged_working = int(srl[i]) == D.R_WORKING
                if logged_working != (holds and not is_abs):
                    res.add("log_state", "C03.log_resource_state.%s" % kind,
                            "%s %s is logged %d at step %d with assigned %s (absent=%s)"
                            % (kind, r.ID, int(srl[i]), k, atr[i], is_abs), k)
                    break
    for t in tr.ix.tasks:
        n = len(t.allocated_worker_id_record)
        for i in range(off, n):
            for wid in t.allocated_worker_id_record[i] or []:
                w = tr.ix.worker.get(wid)
                if w is None or i >= len(w.assigned_task_id_record) or t.ID not in (w.assigned_task_id_record[i] or []):
                    res.add("log_two_way", "C03.log_two_way.worker", "step %d: task %s logs worker %s but the worker's log does not list the task"
                            % (i, t.ID, wid), i)
            for fid in t.allocated_facility_id_record[i] or []:
                f = tr.ix.fac.get(fid)
                if f is None or i >= len(f.assigned_task_id_record) or t.ID not in (f.assigned_task_id_record[i] or []):
                    res.add("log_two_way", "C03.log_two_way.facility", "step %d: task %s logs facility %s but the facility's log does not list the task"
                            % (i, t.ID, fid), i)
    return any_held


def run(spec):
    tr = C.run_forward(spec)
    res = C.base_result(tr)
    res.nontrivial = bool(check_trace(res, tr))
    return C.finish(res, tr)
