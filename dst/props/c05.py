"""C05 - every feasible project completes, and the reported status is truthful."""
import math

from .. import gen as G
from . import common as C
from .common import NONE, READY, WORKING, FINISHED, SNAME, Static, TOL

ID = "C05"
LEVEL = "exploration"
DESIGN_REF = "DESIGN.md section 5, C05 (bounded liveness)"
TECHNIQUE = "deterministic simulation: bounded liveness (completion within 2B+10 steps once absence faults stop) on a constructive feasible family; status/termination invariants on all runs"
RULE = ("three seeded families: general models (termination, max_time and status clauses; a pDESy exception inside "
        "simulate() is a violation), feasible-F (acyclic, no facility task, component-bound auto tasks only with a component and "
        "a workplace of their own that can always take it, every non-auto "
        "unfinished task has an eligible worker with a finite absence list, FF/SF-input tasks have private workers) run with "
        "max_time = 2B+10 where B = last absence index+1 + sum(ceil(rem/min skill)+3) -> must report SUCCESS, and infeasible-I "
        "(feasible-F with one task made unservable) -> must not report SUCCESS. Non-trivial = feasible/infeasible family run "
        "with >=2 tasks and >=1 dependency, or a general run cut off by max_time; distinct = scenario digests")
ASSUMPTIONS = [
    "completion clause claimed for tasks that need no facility and under the strong 'workers of its own' reading (DESIGN section 4)",
    "models <= 8 tasks", "unit_time = 1",
]
LEVEL_TEXT = ("Bounded liveness by seeded search: once absence faults have stopped, a feasible project must finish within the "
              "stated step bound; plus termination/status invariants on every run of a general family. A clean run is evidence, not proof.")
LEVEL_NOTE = "Trusted: the feasibility construction and the bound B (argued in DESIGN section 5); sampling evidence only."
PROBES = ["family_general", "family_feasible", "family_infeasible", "feasible_with_FF", "feasible_with_SF", "feasible_with_SS",
          "one_step_predecessor_SS", "feasible_auto_task_with_private_workplace", "feasible_without_any_worker", "cut_off_by_max_time", "feasible_with_absence", "zero_work_task", "infeasible_not_success"]


def budget(tier):
    return 9000 if tier == "quick" else 2000000


def bound(model, cfg):
    st = Static(model)
    last_abs = -1
    for a in cfg.get("absence", []):
        last_abs = max(last_abs, a)
    for wid, w in st.worker.items():
        for a in w.get("abs", []):
            last_abs = max(last_abs, a)
    B = last_abs + 1
    for i, tid in enumerate(st.order):
        rem = st.initial_remaining(tid)
        if st.exempt(tid):
            continue
        if st.auto(tid):
            d = st.rate(tid)
        else:
            el = G.eligible_workers(model, i)
            if not el:
                return None
            d = min(w["skills"][st.name(tid)] for w in el)
        if d <= 0:
            return None
        B += int(math.ceil(max(rem, 0.0) / d)) + 3
    return B


def feasible_ok(m):
    """Independent re-validation of the feasible-F premises on the model a run actually executes (a shrunk or hand-edited
    replay that left the family makes no completion claim)."""
    st = Static(m)
    names = [st.name(t) for t in st.order]
    if len(set(names)) != len(names) or m.get("ext_preds"):
        return False
    if any(not (a < b) for (a, b, k) in m["deps"]):
        return False
    elig = {}
    for i, tid in enumerate(st.order):
        t = st.tasks[tid]
        if t.get("nf") or t.get("sub"):
            return False
        if st.auto(tid):
            if t.get("comp") is not None:
                cid = st.comp_order[t["comp"]]
                if st.comp_tasks[cid] != [tid] or st.parents[cid] or st.children[cid]:
                    return False
                size = m["comps"][t["comp"]].get("size", 1.0)
                if not any(wp["targets"] == [i] and not wp.get("inputs") and wp.get("cap", 1.0) >= size
                           and any(f["skills"].get(st.name(tid), 0.0) > 1e-10 for f in wp["facs"]) for wp in m["wps"]):
                    return False
            continue
        if st.exempt(tid):
            continue
        el = G.eligible_workers(m, i)
        if not el:
            return False
        elig[i] = set(w["id"] for w in el)
    for wp in m["wps"]:
        if len(wp["targets"]) != 1 or not st.auto(st.order[wp["targets"][0]]):
            return False
    for (a, b, k) in m["deps"]:
        if k in (G.FF, G.SF) and b in elig:
            if any(j != b and (e & elig[b]) for j, e in elig.items()):
                return False
    return True


def gen(rng, tier):
    r = rng.random()
    if r < 0.4:
        spec = C.forward_spec(rng, tier)
        spec["family"] = "general"
        return spec
    focus = {}
    if rng.random() < 0.7:
        focus["kinds"] = [k for k in (0, 1, 2, 3) if rng.random() < 0.6] or [rng.choice([1, 2, 3])]
    if rng.random() < 0.3:
        focus["same_step"] = True
    if rng.random() < 0.35:
        focus["auto_private_wp"] = True
        focus["auto"] = True
    if rng.random() < 0.06:
        focus["all_auto"] = True
    if rng.random() < 0.2:
        # several workers per task who come and go while it is worked on
        focus.update(res_abs=True, worker_abs_dense=True, contention="low", solo=False)
    p = G.gen_profile(rng, focus)
    m = G.gen_feasible(rng, p)
    cfg = G.gen_cfg(rng, p)
    fam = "feasible"
    if r > 0.8:
        mi = G.make_infeasible(rng, m)
        if mi is not None:
            m, idx, how = mi
            fam = "infeasible"
    B = bound(m, cfg) if fam == "feasible" else None
    if fam == "feasible":
        if B is None:
            fam = "general"
        else:
            cfg["max_time"] = 2 * B + 10
    ut = rng.choice([2, 3]) if rng.random() < 0.08 else 1
    if ut != 1:
        cfg["unit_time"] = ut  # the clock advances by ut per step: limits are times, the bound counts steps
        if fam == "feasible":
            cfg["max_time"] = cfg["max_time"] * ut + rng.randint(0, ut - 1)
    spec = {"profile": p, "model": m, "cfg": cfg, "ranks": G.gen_ranks(rng, m), "family": fam}
    if fam == "infeasible":
        spec["unservable"] = m["tasks"][idx]["id"]
        spec["how"] = how
        cfg["max_time"] = rng.choice([20, 40, 80, 41])
    if fam == "feasible" and rng.random() < 0.3:
        # the completion clause must also hold for a run that follows an interrupted / earlier run on the same object
        C.maybe_history(rng, spec, 1.0, reload_prob=0.2)
        C.maybe_org_edit(rng, spec, 0.5)  # (only with a state reset) the first call ran on a model that lacked a target / had a worker elsewhere
        # time may continue from the first call: a generous limit costs no detection (a deadlock never terminates)
        cfg["max_time"] = 2 * cfg["max_time"] + 20 * ut
    return spec


def extra_candidates(spec):
    return C.history_candidates(spec)


def check_always(res, tr, prefix="C05"):
    rec, out, p = tr.rec, tr.out, tr.project
    mt = tr.cfg.get("max_time", 40)
    ut = tr.cfg.get("unit_time", 1) or 1
    if getattr(tr, "history", None) is not None and tr.history.get("k") is None and not tr.history["log"]:
        pass  # time continues after a complete first run: the limit clauses below still refer to this call's max_time
    if not out.ok and not out.injected:
        res.add("returns", "%s.exception.%s@%s" % (prefix, out.exc_type, out.where),
                "simulate() raised %s(%s) in %s" % (out.exc_type, out.msg, out.where), p.time)
        return
    for s in C.full_steps(rec):
        if s.t >= mt:
            res.add("max_time", prefix + ".step_at_or_beyond_max_time", "step %d was simulated although max_time=%d" % (s.t, mt), s.t)
            break
    if p.time >= mt + ut and C.full_steps(rec):
        res.add("max_time", prefix + ".time_beyond_max_time", "project.time=%d although max_time=%d and unit_time=%d: the last step began at or beyond the limit"
                % (p.time, mt, ut), p.time)
    allfin = all(int(t.state) == FINISHED for t in tr.ix.tasks)
    status = int(p.status)
    if status == 1 and not allfin:
        res.add("status", prefix + ".success_with_unfinished_task", "status FINISHED_SUCCESS but tasks are %s"
                % {t.ID: SNAME.get(int(t.state)) for t in tr.ix.tasks}, p.time)
    if status != 1 and allfin:
        res.add("status", prefix + ".all_finished_but_not_success", "all tasks FINISHED but status is %d" % status, p.time)
    if status == -1 and p.time < mt:
        res.add("status", prefix + ".failure_before_max_time", "FINISHED_FAILURE at time %d < max_time %d" % (p.time, mt), p.time)
    if status == 0:
        res.add("status", prefix + ".status_none_after_return", "simulate() returned with status NONE", p.time)
    if status == -1:
        res.count("cut_off_by_max_time")


def run(spec):
    tr = C.run_forward(spec, want_snap=True, snap_phases=("recorded",))
    res = C.base_result(tr)
    fam = spec.get("family", "general")
    m = spec["model"]
    if fam == "feasible":
        B_ = bound(m, spec["cfg"]) if feasible_ok(m) else None
        need = None if B_ is None else ((2 * B_ + 10) if spec.get("history") is None else 2 * (2 * B_ + 10) + 20)
        if need is not None:
            need *= (spec["cfg"].get("unit_time", 1) or 1)
        if need is None or spec["cfg"].get("max_time", 0) < need:
            fam = "general"  # not (or no longer, after shrinking) a member of the family: no completion claim
    elif fam == "infeasible":
        st_ = Static(m)
        u = spec.get("unservable")
        if u not in st_.tasks or st_.auto(u) or st_.exempt(u) or G.eligible_workers(m, st_.tidx[u]):
            fam = "general"
    res.count("family_" + fam)
    check_always(res, tr)
    kinds = set(k for (_, _, k) in m["deps"])
    if fam == "feasible":
        for k in kinds:
            if k:
                res.count("feasible_with_" + G.KIND_NAME[k])
        if tr.absence or any(w.get("abs") for tm in m["teams"] for w in tm["workers"]):
            res.count("feasible_with_absence")
        st = Static(m)
        for (a, b, k) in m["deps"]:
            if k == G.SS:
                ta = m["tasks"][a]
                if not ta.get("auto") and ta["work"] > 0:
                    el = G.eligible_workers(m, a)
                    if el and sum(w["skills"][ta["id"]] for w in el) >= ta["work"] * (1 - ta.get("dp", 0.0)):
                        res.count("one_step_predecessor_SS")
        for t in m["tasks"]:
            if t["work"] == 0.0:
                res.count("zero_work_task")
            if t.get("auto") and t.get("comp") is not None:
                res.count("feasible_auto_task_with_private_workplace")
        if not any(tm["workers"] for tm in m["teams"]):
            res.count("feasible_without_any_worker")
        if tr.out.ok and int(tr.project.status) != 1:
            unfinished = {t.ID: SNAME.get(int(t.state)) for t in tr.ix.tasks if int(t.state) != FINISHED}
            ks = "+".join(sorted(G.KIND_NAME[k] for k in kinds)) or "nodep"
            res.add("completion", "C05.feasible_not_completed.kinds_" + ks,
                    "feasible project did not complete within max_time=%d (bound B=%d): unfinished %s"
                    % (tr.cfg["max_time"], (tr.cfg["max_time"] - 10) // 2, unfinished), tr.project.time)
    elif fam == "infeasible":
        if tr.out.ok and int(tr.project.status) == 1:
            res.add("infeasible", "C05.infeasible_reports_success." + spec.get("how", "?"),
                    "task %s cannot be served by any worker (%s) but the project reports FINISHED_SUCCESS"
                    % (spec.get("unservable"), spec.get("how")), tr.project.time)
        else:
            res.count("infeasible_not_success")
    res.nontrivial = (fam != "general" and len(m["tasks"]) >= 2 and bool(m["deps"])) or \
                     (fam == "general" and int(tr.project.status) == -1)
    return C.finish(res, tr)
