"""C11 - priority rules order candidates as documented and allocation never inverts them."""
from .. import director as D
from .. import env, gen as G, scen, seams
from . import common as C
from .common import NONE, READY, WORKING, FINISHED, SNAME, Static, TOL

ID = "C11"
LEVEL = "exploration"
DESIGN_REF = "DESIGN.md section 5, C11"
TECHNIQUE = "deterministic simulation: every sort call of every seeded run is intercepted at the module seam and checked against independent keys; Director-initiated sorts on harvested live lists with every rule; no-inversion oracle on live allocation snapshots"
RULE = ("seeded contention-heavy models with random task/worker/facility/workplace rules at all four levels; (a) every sort_* call "
        "made during allocation plus Director-initiated calls of all four functions with every rule on the live lists at sampled "
        "'updated' instants (and on a project restored from JSON): result is a permutation by identity, consecutive elements "
        "ordered by the independently computed documented primary key (value equality for IDs), no exception for any (kind, rule) "
        "pair; (b) at 'allocated': a worker newly given to task L is not eligible-and-acceptable for a no-facility task H that "
        "strictly precedes L under the project rule. Non-trivial = >=1 observed sort call with >=2 elements and distinct keys, "
        "and >=1 step with more open tasks than free workers; distinct = scenario digests")
ASSUMPTIONS = ["tie order is not checked", "sort functions are checked on lists that arise in, or are harvested from, simulated states only",
               "models <= 8 tasks"]
LEVEL_TEXT = ("Seeded exploration: the four sort functions are observed on every call inside the real allocation loop and probed with "
              "every rule on live lists; the allocation result is checked against the priority order.")
LEVEL_NOTE = "Trusted: independent key functions in this module; sampling evidence only."
PROBES = ["sort_calls_observed", "sort_calls_nontrivial", "director_sort_calls", "mw_match_exists", "hsv_missing_skill",
          "tie_in_keys", "contention_step", "new_alloc_checked", "json_restart_sorts", "backward_runs", "task_rule_of_sort_checked", "worker_rule_candidate_checked", "sorted_again_after_skill_edit"]

TASK_RULES = ["TSLACK", "EST", "SPT", "LPT", "FIFO", "LRPT", "SRPT", "LWRPT", "SWRPT"]
RES_RULES = {-1: "MW", 0: "SSP", 1: "VC", 2: "HSV"}
WP_RULES = {0: "FSS", 1: "SSP"}


def budget(tier):
    return 8000 if tier == "quick" else 1500000


def gen(rng, tier):
    focus = {"task_rules": True, "contention": rng.choice(["high", "mid", "mid", "low"])}
    if rng.random() < 0.6:
        focus.update(comps=True, facilities=True, mainwp=True)
    if rng.random() < 0.25:
        # workplaces numbered like the teams (IDs are unique per kind only), facility-needing tasks competing for workers
        focus.update(same_group_ids=True, comps=True, facilities=True, contention="high")
    hsv_focus = rng.random() < 0.15
    if hsv_focus:
        focus.update(solo=True, contention="low", zero_skill=False, fix=False)
    spec = C.forward_spec(rng, tier, focus)
    if hsv_focus:
        # several tasks that rank their candidates by the skill for *their own* name, workers that work alone
        for t_ in spec["model"]["tasks"]:
            t_["wrule"] = 2
        for tm_ in spec["model"]["teams"]:
            for w_ in tm_["workers"]:
                if rng.random() < 0.5:
                    w_["solo"] = True
    spec["probe_steps"] = sorted(set(rng.randint(0, 12) for _ in range(3)))
    spec["json"] = rng.random() < 0.2
    if rng.random() < 0.15:
        spec["skill_edit"] = rng.randint(1, 1 << 20)
    if rng.random() < 0.06 and not spec.get("backward"):
        spec["cfg"]["init_state"] = False  # fresh objects simulated without the state initialisation
    if rng.random() < 0.15:
        spec["backward"] = True
    return spec


def extra_candidates(spec):
    if spec.get("backward") is not None:
        c = dict(spec)
        c.pop("backward")
        yield c


# ---- independent primary keys (ascending order expected) ---------------------------------------
def task_key(rule, t):
    if rule == 0:
        return t.lst - t.est
    if rule == 1:
        return t.est
    if rule == 2:
        return t.default_work_amount
    if rule == 3:
        return -t.default_work_amount
    if rule == 4:
        return -sum(1 for s in t.state_record_list if int(s) == READY)
    if rule == 5:
        return -t.remaining_work_amount
    if rule == 6:
        return t.remaining_work_amount
    if rule in (7, 8):
        if t.parent_workflow is None:
            return None
        return -t.parent_workflow.critical_path_length if rule == 7 else t.parent_workflow.critical_path_length
    return None


def resource_key(rule, r, name, workplace_id, is_worker):
    """Documented keys (ascending).  For workers every rule is followed by the documented tie-breakers: main workplace
    equals the target first (MW1), then workers without a main workplace (MW2); MW itself is followed by the skill sum."""
    if is_worker:
        mw1 = 0 if (r.main_workplace_id == workplace_id) else 1   # value equality, None == None counts as a match (as documented by the code's MW1)
        mw2 = 0 if r.main_workplace_id is None else 1
        ssp = sum(r.workamount_skill_mean_map.values())
        if rule == -1:
            return (mw1, mw2, ssp)
        if rule == 0:
            return (ssp, mw1, mw2)
        if rule == 1:
            return (r.cost_per_time, mw1, mw2)
        if rule == 2:
            v = r.workamount_skill_mean_map.get(name)
            return (float("inf") if v is None else -v, mw1, mw2)
        return None
    if rule == -1:
        return None
    if rule == 0:
        return sum(r.workamount_skill_mean_map.values())
    if rule == 1:
        return r.cost_per_time
    if rule == 2:
        v = r.workamount_skill_mean_map.get(name)
        return float("inf") if v is None else -v
    return None


def workplace_key(rule, wp, name):
    if rule == 0:
        return -(wp.max_space_size - sum(c.space_size for c in wp.placed_component_list))
    if rule == 1:
        return -sum(f.workamount_skill_mean_map[name] for f in wp.facility_list
                    if f.workamount_skill_mean_map.get(name, 0.0) > TOL)
    return None


def keys_for(fn, rule, items, kw):
    rule = int(rule)
    if fn == "sort_task_list":
        return [task_key(rule, t) for t in items], TASK_RULES[rule] if 0 <= rule < 9 else str(rule)
    if fn == "sort_worker_list":
        return [resource_key(rule, w, kw.get("name"), kw.get("workplace_id"), True) for w in items], RES_RULES.get(rule, str(rule))
    if fn == "sort_facility_list":
        return [resource_key(rule, f, kw.get("name"), None, False) for f in items], RES_RULES.get(rule, str(rule))
    if fn == "sort_workplace_list":
        return [workplace_key(rule, w, kw.get("name")) for w in items], WP_RULES.get(rule, str(rule))
    return None, "?"


DEFAULT_RULE = {"sort_task_list": 0, "sort_worker_list": 0, "sort_facility_list": 0, "sort_workplace_list": 0}


def check_sort(res, fn, inp, a, kw, out, exc, label, t):
    rule = a[0] if a else kw.get("priority_rule_mode", DEFAULT_RULE[fn])
    try:
        rname = keys_for(fn, rule, [], kw)[1]
    except Exception:
        rname = str(rule)
    if exc is not None:
        if "restored from JSON" in label:
            rname += ".restored_from_json"
        res.add("accepts", "C11.sort_raises.%s.%s.%s" % (fn, rname, type(exc).__name__),
                "%s(rule=%s, %s) raised %r (%s)" % (fn, rname, {k: v for k, v in kw.items()}, exc, label), t)
        return
    if len(out) != len(inp) or sorted(map(id, out)) != sorted(map(id, inp)):
        res.add("permutation", "C11.not_a_permutation.%s.%s" % (fn, rname), "%s(rule=%s) returned %d elements for %d inputs or different objects (%s)"
                % (fn, rname, len(out), len(inp), label), t)
        return
    kout, _ = keys_for(fn, rule, out, kw)
    if kout is None or any(k is None for k in kout):
        return
    if len(set(kout)) < len(kout):
        res.count("tie_in_keys")
    if len(set(kout)) > 1:
        res.count("sort_calls_nontrivial")
    def gt(a, b):
        if isinstance(a, tuple):
            return a > b
        return a > b + 1e-12

    for i in range(1, len(kout)):
        if gt(kout[i - 1], kout[i]):
            res.add("order", "C11.order.%s.%s" % (fn, rname),
                    "%s(rule=%s, %s): element %s (key %r) is placed before %s (key %r) (%s)"
                    % (fn, rname, dict(kw), getattr(out[i - 1], "ID", "?"), kout[i - 1], getattr(out[i], "ID", "?"), kout[i], label), t)
            break


def director_sorts(res, project, ix, names, wpids, label, t):
    M = env.M
    for rule in range(9):
        run_one(res, M.brule.sort_task_list, "sort_task_list", list(ix.tasks), (M.brule.TaskPriorityRuleMode(rule),), {}, label, t)
    for rule in (-1, 0, 1, 2):
        rr = M.brule.ResourcePriorityRuleMode(rule)
        for name in names[:2]:
            for wpid in wpids[:2]:
                kw = {"name": name}
                if wpid is not None:
                    kw["workplace_id"] = wpid
                run_one(res, M.brule.sort_worker_list, "sort_worker_list", list(ix.workers), (rr,), kw, label, t)
            run_one(res, M.brule.sort_facility_list, "sort_facility_list", list(ix.facs), (rr,), {"name": name}, label, t)
    for rule in (0, 1):
        for name in names[:2]:
            run_one(res, M.brule.sort_workplace_list, "sort_workplace_list", list(ix.wps), (M.brule.WorkplacePriorityRuleMode(rule),), {"name": name}, label, t)


def run_one(res, f, fn, items, a, kw, label, t):
    res.count("director_sort_calls")
    try:
        out = f(list(items), *a, **kw)
        exc = None
    except Exception as e:  # SUT exception of a pure function call
        out, exc = None, e
    check_sort(res, fn, items, a, kw, out, exc, label, t)


def run(spec):
    scen.setup_run(spec.get("seed", 0))
    model = spec["model"]
    st = Static(model)
    res = C.campaign.Result()
    pending = []

    by_name = {}
    for tid_ in st.order:
        by_name.setdefault(st.name(tid_), []).append(tid_)
    RULE_OF = {"sort_worker_list": ("wrule", -1, "worker_priority_rule"), "sort_facility_list": ("frule", 0, "facility_priority_rule"),
               "sort_workplace_list": ("prule", 0, "workplace_priority_rule")}

    def keyfn(rec, call):
        pending.append((rec.cur.t if rec.cur is not None else -1, call))
        res.count("sort_calls_observed")
        if call["fn"] in RULE_OF and call["exc"] is None:
            # candidates of a task are ranked with the rule this task selects for this kind of resource
            key_, dflt, attr = RULE_OF[call["fn"]]
            owners = by_name.get(call["kw"].get("name"), [])
            got = call["args"][0] if call["args"] else call["kw"].get("priority_rule_mode")
            if call["kw"].get("name") is not None and not owners:
                # the skill-based rules rank the candidates by their skill for the task: the name they are given is a task's name
                res.add("task_rule", "C11.allocation_ranks_for_a_name_that_is_no_task.%s" % call["fn"],
                        "step %s: %s was called during the allocation with name=%r, which is not the name of any task (skill maps are "
                        "keyed by task names)" % (rec.cur.t if rec.cur is not None else "?", call["fn"], call["kw"].get("name")),
                        rec.cur.t if rec.cur else None)
            if len(owners) == 1 and got is not None:
                exp = st.tasks[owners[0]].get(key_)
                exp = dflt if exp is None else exp
                res.count("task_rule_of_sort_checked")
                if int(got) != exp:
                    res.add("task_rule", "C11.allocation_ranks_with_other_rule.%s" % call["fn"],
                            "step %s: %s for task %s was called with rule %s, the task's %s is %s"
                            % (rec.cur.t if rec.cur is not None else "?", call["fn"], owners[0], int(got), attr, exp),
                            rec.cur.t if rec.cur else None)
        check_sort(res, call["fn"], call["in"], call["args"], call["kw"], call["out"], call["exc"],
                   "observed during allocation of step %s" % (rec.cur.t if rec.cur is not None else "?"), rec.cur.t if rec.cur else None)

    names = [st.name(t) for t in st.order]
    wpids = [None] + ["".join(list(w)) for w in st.wp_order]
    probe_steps = set(spec.get("probe_steps", []))

    def on_phase(rec, name, cur):
        if name == "updated" and cur.t in probe_steps:
            rot = cur.t % max(1, len(names))
            director_sorts(res, rec.project, rec.ix, names[rot:] + names[:rot], wpids[::-1] if cur.t % 2 else wpids,
                           "Director-initiated at the 'updated' instant of step %d" % cur.t, cur.t)

    if spec.get("backward") is not None:
        # the rule given to backward_simulate governs the allocation of its inner run in the same way
        from .. import build as B
        tr = scen.Trace()
        tr.model, tr.cfg = model, spec["cfg"]
        tr.built = B.build(model, spec.get("ranks"))
        tr.project = tr.built.project
        tr.absence = set(spec["cfg"].get("absence", []))
        tr.rec, tr.out = scen.simulate(tr.project, spec["cfg"], want_sorts=True, sort_keyfn=keyfn, on_phase=on_phase,
                                       backward={"due": False, "reverse": False})
        tr.ix = tr.rec.ix
        tr.history, tr.log_offset = None, 0
    else:
        tr = scen.run_forward(model, spec.get("ranks"), spec["cfg"], want_sorts=True, sort_keyfn=keyfn, on_phase=on_phase)
        tr.history, tr.log_offset = None, 0
    base = C.base_result(tr)
    if spec.get("backward") is not None:
        res.count("backward_runs")
    for k, v in base.stats.items():
        res.count(k, v)
    res.steps = base.steps
    # (b) no inversion
    rule = spec["cfg"].get("rule", 0)
    rec = tr.rec
    ready_count = {tid: 0 for tid in st.order}
    prevR = rec.init_snap["T"] if rec.init_snap is not None else None
    contention = False
    for s in rec.steps:
        U, A, R = s.ph.get("updated"), s.ph.get("allocated"), s.ph.get("recorded")
        if A is None:
            break
        k = s.t
        working = k not in tr.absence
        if working:
            UT, AT = U["T"], A["T"]
            cpl = U["cpl"]

            def pk(tid):
                v = UT[tid]
                if rule == 0:
                    return v[6] - v[4]
                if rule == 1:
                    return v[4]
                if rule == 2:
                    return st.tasks[tid]["work"]
                if rule == 3:
                    return -st.tasks[tid]["work"]
                if rule == 4:
                    return -ready_count[tid]
                if rule == 5:
                    return -v[1]
                if rule == 6:
                    return v[1]
                return 0

            open_tasks = [t for t in st.order if UT[t][0] in (READY, WORKING)]
            free_before = [w for w in st.worker_order if U["W"][w][0] == D.FREE and not st.w_absent(w, k)]
            if len([t for t in open_tasks if not st.auto(t)]) > len(free_before) > 0:
                contention = True
                res.count("contention_step")
            # (c) the task's own worker rule: a task that had no worker and was given some must have been given the candidate
            # that its worker_priority_rule ranks strictly before every worker it got (the first candidate is never passed over)
            for T_ in open_tasks:
                if st.auto(T_) or st.nf(T_) or UT[T_][2] or not AT[T_][2]:
                    continue
                got_ws = [w for w in AT[T_][2] if w in st.worker]
                if len(got_ws) != len(AT[T_][2]):
                    continue
                wr = st.tasks[T_].get("wrule")
                wr = -1 if wr is None else wr
                nm = st.name(T_)
                keys_got = [resource_key(wr, tr.ix.worker[w], nm, None, True) for w in got_ws if w in tr.ix.worker]
                if len(keys_got) != len(got_ws) or any(k_ is None for k_ in keys_got):
                    continue
                for c1 in free_before:
                    if c1 in got_ws or A["W"][c1][1] or A["W"][c1][0] != D.FREE or not st.eligible_w(c1, T_) or c1 not in tr.ix.worker:
                        continue
                    kc = resource_key(wr, tr.ix.worker[c1], nm, None, True)
                    res.count("worker_rule_candidate_checked")
                    if kc is not None and all(kc < kg for kg in keys_got):
                        res.add("worker_rule", "C11.worker_rule_inverted.%s" % RES_RULES.get(wr, wr),
                                "step %d: task %s (worker rule %s, no worker before) was given %s although the free eligible worker %s ranks "
                                "strictly first (key %r vs %r) and stayed FREE" % (k, T_, RES_RULES.get(wr, wr), got_ws, c1, kc, keys_got), k)
                        break
            for L in open_tasks:
                if st.auto(L):
                    continue
                new_ws = [w for w in AT[L][2] if w not in UT[L][2]]
                for w in new_ws:
                    if w not in st.worker:
                        continue
                    res.count("new_alloc_checked")
                    for H in open_tasks:
                        if H == L or st.auto(H):
                            continue
                        if not (pk(H) < pk(L) - 1e-12):
                            continue
                        if not st.eligible_w(w, H):
                            continue
                        if st.nf(H):
                            # facility task: it could still have used the worker if a facility of the workplace where its
                            # component stays throughout this step was free before and is unassigned after the allocation,
                            # is eligible, can be operated by the worker, and no solo rule forbids the pair
                            cid = st.task_comp.get(H)
                            if cid is None or st.parents.get(cid) or st.children.get(cid):
                                continue
                            X = A["C"][cid][1]
                            if X is None or X != U["C"][cid][1] or X not in st.wp:
                                continue
                            ws, fs = AT[H][2], AT[H][3]
                            if any(st.worker[x].get("solo") for x in ws if x in st.worker) or any(st.fac[x].get("solo") for x in fs if x in st.fac):
                                continue
                            if st.worker[w].get("solo") and len(ws) > 0:
                                continue
                            for f_ in [x["id"] for x in st.wp[X]["facs"]]:
                                if U["F"][f_][0] != D.FREE or U["F"][f_][1] or A["F"][f_][1] or st.f_absent(f_, k):
                                    continue
                                if not st.eligible_f(f_, H) or st.w_fskill(w, f_) <= 1e-10:
                                    continue
                                if st.fac[f_].get("solo") and len(fs) > 0:
                                    continue
                                res.add("inversion", "C11.inversion.%s.facility_task_left_pair_unused" % TASK_RULES[rule],
                                        "step %d, rule %s: worker %s was given to %s (key %r) although the higher-priority facility task %s "
                                        "(key %r, holding %s/%s) could have taken it together with the free facility %s of workplace %s"
                                        % (k, TASK_RULES[rule], w, L, pk(L), H, pk(H), list(ws), list(fs), f_, X), k)
                                break
                            continue
                        ws = AT[H][2]
                        if any(st.worker[x].get("solo") for x in ws if x in st.worker):
                            continue
                        if st.worker[w].get("solo") and len(ws) > 0:
                            continue
                        res.add("inversion", "C11.inversion.%s" % TASK_RULES[rule],
                                "step %d, rule %s: worker %s was given to %s (key %r) although it is eligible for the higher-priority "
                                "task %s (key %r, workers %s) which can still accept it" % (k, TASK_RULES[rule], w, L, pk(L), H, pk(H), list(ws)), k)
        if R is None:
            break
        for tid in st.order:
            if C.display_task(R["T"][tid][0], working) == READY:
                ready_count[tid] += 1
        prevR = R["T"]
    # MW / HSV reach probes
    for w in st.worker.values():
        if w.get("mainwp"):
            res.count("mw_match_exists")
    for w in st.worker.values():
        if any(n not in w.get("skills", {}) for n in names):
            res.count("hsv_missing_skill")
            break
    # a what-if edit: skills are changed in place on the same objects and the lists sorted again (keys must be current)
    if tr.out.ok and spec.get("skill_edit") is not None:
        import random as _r
        rr_ = _r.Random(spec["skill_edit"])
        for w_ in tr.ix.workers + tr.ix.facs:
            for nm_ in list(w_.workamount_skill_mean_map):
                if rr_.random() < 0.5:
                    w_.workamount_skill_mean_map[nm_] = rr_.choice([0.25, 0.5, 1.0, 2.0, 4.0, 6.0])
        res.count("sorted_again_after_skill_edit")
        director_sorts(res, tr.project, tr.ix, names, wpids, "Director-initiated after skills were edited in place", tr.project.time)
    # sorts on a project restored from JSON (IDs are then equal-but-not-identical strings everywhere)
    if spec.get("json") and tr.out.ok:
        new, ow, orr = scen.save_load(tr.project, "mem:c11.json", spec.get("ranks"))
        if new is not None:
            res.count("json_restart_sorts")
            nix = D.index(new)
            director_sorts(res, new, nix, names, wpids, "Director-initiated on the project restored from JSON", tr.project.time)
            # ... and its own allocation ranks with the restored rules (whatever type they came back as)
            scen.simulate(new, spec["cfg"], want_sorts=True, sort_keyfn=keyfn, want_snap=False)
            res.count("restored_project_simulated")
    res.nontrivial = res.stats.get("sort_calls_nontrivial", 0) > 0 and contention
    return C.finish(res, tr)
