"""C04 - only eligible resources are ever allocated to a task."""
from . import common as C
from .common import NONE, READY, WORKING, FINISHED, SNAME, Static, TOL

ID = "C04"
LEVEL = "exploration"
DESIGN_REF = "DESIGN.md section 5, C04"
TECHNIQUE = "deterministic simulation: seeded skill/team/solo/fixed-ID/absence combinations, eligibility oracle on every allocation"
RULE = ("seeded models over skills (incl. 0 and missing), team/workplace targeting, solo flags, fixed-ID lists and absence "
        "lists; every (task, step, worker/facility) allocation seen at the 'allocated' instant and in the allocation logs is "
        "checked against an independent eligibility predicate computed from the model data. Non-trivial = >=1 new allocation "
        "happened while >=1 ineligible candidate resource existed; distinct = scenario digests")
ASSUMPTIONS = ["models <= 8 tasks", "skills are keyed by task name; task names are unique in generated models"]
LEVEL_TEXT = ("Seeded exploration: each allocation made by the real allocator is compared with an independent eligibility "
              "predicate (skill, team/workplace targeting, fixed IDs, absence at the moment of allocation, solo exclusivity, "
              "worker-facility pairing).")
LEVEL_NOTE = "Trusted: the independent eligibility predicate in dst/static.py; sampling evidence only."
PROBES = ["new_worker_alloc", "new_pair_alloc", "ineligible_zero_skill", "ineligible_team", "ineligible_fix",
          "ineligible_absent", "solo_alloc", "pair_worker_without_facility_skill"]


def budget(tier):
    return 12000 if tier == "quick" else 2500000


def gen(rng, tier):
    focus = {"zero_skill": rng.random() < 0.7}
    if rng.random() < 0.5:
        focus.update(comps=True, facilities=True)
    if rng.random() < 0.5:
        focus["solo"] = True
    if rng.random() < 0.5:
        focus["fix"] = True
    if rng.random() < 0.5:
        focus["res_abs"] = True
    pairs_restart = rng.random() < 0.12
    if pairs_restart:
        # facility-needing tasks that hold several worker-facility pairs, paused in the middle and taken through a file
        focus.update(comps=True, facilities=True, contention="low", solo=False, fix=False, single_task_comps=True)
    spec = C.maybe_from_json(rng, C.maybe_org_edit(rng, C.maybe_history(rng, C.forward_spec(rng, tier, focus), 0.3, reload_prob=0.3), 0.35))
    if pairs_restart and not (spec.get("history") or {}).get("org_edit"):
        spec.pop("from_json", None)
        spec["history"] = {"k": rng.randint(1, 6), "state": False, "log": rng.random() < 0.5, "reload": True}
    if rng.random() < 0.1:
        spec["cfg"]["unit_time"] = rng.choice([2, 3])  # the clock advances by 2 or 3 per step; absence lists name times
    if rng.random() < 0.08 and not (spec.get("history") or {}).get("org_edit"):
        # a skill entry that is not a number (an empty cell of an imported table): not a positive skill
        m_ = spec["model"]
        nan = float("nan")
        for tm in m_["teams"]:
            for w in tm["workers"]:
                for i_ in tm["targets"]:
                    if rng.random() < 0.4:
                        w["skills"][m_["tasks"][i_].get("name", m_["tasks"][i_]["id"])] = nan
        for wp in m_["wps"]:
            for f in wp["facs"]:
                for k_ in list(f.get("skills", {})):
                    if rng.random() < 0.2:
                        f["skills"][k_] = nan
        spec["nan_skills"] = True
    return spec


def extra_candidates(spec):
    return C.history_candidates(spec)


def check_trace(res, tr):
    st = Static(tr.model)
    rec = tr.rec
    interesting = False
    prev_alloc = {tid: ((), ()) for tid in st.order}
    if rec.init_snap is not None:
        for tid in st.order:  # a continuation starts with the allocations the first call left
            prev_alloc[tid] = (rec.init_snap["T"][tid][2], rec.init_snap["T"][tid][3])
    # static pool of ineligible candidates (for the reach probes)
    for tid in st.order:
        for wid in st.worker_order:
            if st.w_skill(wid, tid) <= TOL and st.name(tid) in st.worker[wid].get("skills", {}):
                res.count("ineligible_zero_skill")
            elif st.w_skill(wid, tid) > TOL and tid not in st.team_targets[st.worker_team[wid]]:
                res.count("ineligible_team")
            elif st.w_skill(wid, tid) > TOL and st.tasks[tid].get("fixw") is not None and wid not in st.tasks[tid]["fixw"]:
                res.count("ineligible_fix")
    for s in rec.steps:
        A = s.ph.get("allocated")
        if A is None:
            continue
        k = s.t
        proj_abs = k in tr.absence
        for tid in st.order:
            state, _, ws, fs = A["T"][tid][:4]
            pws, pfs = prev_alloc[tid]
            new_ws = [w for w in ws if w not in pws]
            new_fs = [f for f in fs if f not in pfs]
            for w in ws:
                if w not in st.worker:
                    res.add("unknown", "C04.unknown_worker", "task %s lists unknown worker %r at step %d" % (tid, w, k), k)
                    continue
                if not st.w_skill(w, tid) > TOL:  # (also a skill that is not a number is not a positive skill)
                    res.add("skill", "C04.worker_without_skill", "step %d: worker %s allocated to %s has skill %r"
                            % (k, w, tid, st.w_skill(w, tid)), k)
                if tid not in st.team_targets[st.worker_team[w]]:
                    res.add("team", "C04.worker_team_not_targeting", "step %d: worker %s allocated to %s but its team %s does not target it"
                            % (k, w, tid, st.worker_team[w]), k)
                fx = st.tasks[tid].get("fixw")
                if fx is not None and w not in fx:
                    res.add("fix", "C04.worker_not_in_fixed_ids", "step %d: worker %s allocated to %s whose fixed worker IDs are %s"
                            % (k, w, tid, fx), k)
            for w in new_ws:
                if w not in st.worker:
                    continue
                res.count("new_worker_alloc")
                interesting = True
                if proj_abs:
                    res.add("absent", "C04.allocated_in_project_absence", "step %d is a project-wide absence step but worker %s was newly allocated to %s"
                            % (k, w, tid), k)
                if st.w_absent(w, k):
                    res.add("absent", "C04.allocated_absent_worker", "step %d: worker %s is absent but was newly allocated to %s" % (k, w, tid), k)
            for wid in st.worker_order:
                if st.w_absent(wid, k) and st.eligible_w(wid, tid) and state in (READY, WORKING):
                    res.count("ineligible_absent")
            solo_w = [w for w in ws if w in st.worker and st.worker[w].get("solo")]
            if solo_w:
                res.count("solo_alloc")
                if len(ws) != 1:
                    res.add("solo", "C04.solo_worker_combined", "step %d: solo worker %s shares task %s with %s" % (k, solo_w, tid, list(ws)), k)
            solo_f = [f for f in fs if f in st.fac and st.fac[f].get("solo")]
            if solo_f:
                res.count("solo_alloc")
                if len(fs) != 1:
                    res.add("solo", "C04.solo_facility_combined", "step %d: solo facility %s shares task %s with %s" % (k, solo_f, tid, list(fs)), k)
            if st.nf(tid):
                if len(ws) != len(fs):
                    res.add("pair", "C04.unpaired", "step %d: facility task %s holds %d workers and %d facilities" % (k, tid, len(ws), len(fs)), k)
                for i in range(min(len(ws), len(fs))):
                    w, f = ws[i], fs[i]
                    if f not in st.fac or w not in st.worker:
                        continue
                    if not st.f_skill(f, tid) > TOL:
                        res.add("fskill", "C04.facility_without_skill", "step %d: facility %s allocated to %s has skill %r" % (k, f, tid, st.f_skill(f, tid)), k)
                    if tid not in st.wp_targets[st.fac_wp[f]]:
                        res.add("wp", "C04.facility_workplace_not_targeting", "step %d: facility %s allocated to %s but its workplace does not target it" % (k, f, tid), k)
                    fx = st.tasks[tid].get("fixf")
                    if fx is not None and f not in fx:
                        res.add("fixf", "C04.facility_not_in_fixed_ids", "step %d: facility %s allocated to %s whose fixed facility IDs are %s" % (k, f, tid, fx), k)
                    if not st.w_fskill(w, f) > TOL:
                        res.add("operate", "C04.worker_cannot_operate_facility", "step %d: worker %s paired with facility %s on %s has facility skill %r"
                                % (k, w, f, tid, st.w_fskill(w, f)), k)
                for f in new_fs:
                    if f in st.fac:
                        res.count("new_pair_alloc")
                        if proj_abs:
                            res.add("absent", "C04.allocated_in_project_absence", "step %d is a project-wide absence step but facility %s was newly allocated" % (k, f), k)
                        if st.f_absent(f, k):
                            res.add("absent", "C04.allocated_absent_facility", "step %d: facility %s is absent but was newly allocated to %s" % (k, f, tid), k)
                for wid in st.worker_order:
                    for f in fs:
                        if f in st.fac and st.w_fskill(wid, f) <= TOL and st.eligible_w(wid, tid):
                            res.count("pair_worker_without_facility_skill")
            elif fs:
                res.add("nofac", "C04.facility_on_task_without_need", "step %d: task %s needs no facility but holds %s" % (k, tid, list(fs)), k)
        R = s.ph.get("recorded")
        last = R if R is not None else A
        for tid in st.order:
            prev_alloc[tid] = (last["T"][tid][2], last["T"][tid][3])
    # allocation logs must tell the same story (eligibility on the logged IDs)
    off = getattr(tr, "log_offset", 0) if (getattr(tr, "history", None) or {}).get("org_edit") else 0
    for t in tr.ix.tasks:
        tid = t.ID
        for i, ids in enumerate(t.allocated_worker_id_record):
            if i < off:
                continue  # entries of the first call, made under the organisation as it was before the edit
            for w in ids or []:
                if w in st.worker and not st.eligible_w(w, tid):
                    res.add("log", "C04.log_ineligible_worker", "allocation log of %s at index %d lists ineligible worker %s" % (tid, i, w), i)
        for i, ids in enumerate(t.allocated_facility_id_record):
            if i < off:
                continue
            for f in ids or []:
                if f in st.fac and not st.eligible_f(f, tid):
                    res.add("log", "C04.log_ineligible_facility", "facility log of %s at index %d lists ineligible facility %s" % (tid, i, f), i)
    return interesting


def run(spec):
    tr = C.run_forward(spec)
    res = C.base_result(tr)
    it = check_trace(res, tr)
    res.nontrivial = bool(it) and (res.stats.get("ineligible_zero_skill", 0) + res.stats.get("ineligible_team", 0)
                                   + res.stats.get("ineligible_fix", 0) + res.stats.get("ineligible_absent", 0)) > 0
    return C.finish(res, tr)
