"""C16 - saving to JSON and loading restores everything that was saved, at any stage."""
import copy
import json

from .. import build as B
from .. import director as D
from .. import env, gen as G, scen, seams
from . import common as C
from .common import Static

ID = "C16"
LEVEL = "exploration"
DESIGN_REF = "DESIGN.md section 5, C16"
TECHNIQUE = "deterministic simulation with restart faults: save/load injected at every stage of seeded project histories (in-memory file system), round-trip, reference-integrity and behavioural-twin oracles"
RULE = ("seeded models (incl. sub-project tasks, 0 / 0.0 / -1 values, empty lists, every constructor setting) brought to a seeded "
        "stage (never simulated, initialized, paused at k, finished forward, finished backward with/without log reversal, after log "
        "edits), written with write_simple_json and read into a new project: writing never raises, write(read(file)) equals the file "
        "value-for-value, every cross reference of the restored project is an object of that project, and simulate(restored) == "
        "simulate(original) on every log (this decides 'every simulation-relevant parameter is saved' behaviourally). "
        "Non-trivial = stage other than 'never simulated' or model uses a non-default setting; distinct = scenario digests")
ASSUMPTIONS = ["a constructor parameter with no effect on any explored run cannot be noticed by the behavioural clause",
               "file system replaced by an in-memory open() for 'mem:' paths (a real temporary directory is used for 1 run in 50)",
               "models <= 8 tasks"]
LEVEL_TEXT = ("Seeded restart-fault exploration: the JSON save/load path is exercised at every stage of a project's life and the restored "
              "project must be structurally sound, export the same file again and behave exactly like the original when simulated.")
LEVEL_NOTE = "Trusted: in-memory file shim (cross-checked against a real directory in a sampled fraction), dump comparison; sampling evidence only."
PROBES = ["stage_built", "stage_initialized", "stage_paused", "stage_finished", "stage_backward", "stage_edited",
          "with_subproject_task", "with_task_rules", "with_mainwp", "with_conveyor", "zero_lst_value", "resimulated_twin", "real_directory_used",
          "unconfigured_subproject_task", "non_auto_subproject_task", "encoding_option_used", "file_read_twice", "continued_twin_compared"]


def budget(tier):
    return 4000 if tier == "quick" else 500000


def gen(rng, tier):
    focus = {}
    r = rng.random()
    if r < 0.5:
        focus.update(comps=True, facilities=True)
    if rng.random() < 0.5:
        focus["task_rules"] = True
    if rng.random() < 0.4:
        focus["mainwp"] = True
    if rng.random() < 0.3:
        focus["conveyor"] = True
    spec = C.forward_spec(rng, tier, focus, max_time=rng.choice([15, 30, 40]))
    spec["stage"] = G.wchoice(rng, [("built", 2), ("initialized", 1), ("paused", 3), ("finished", 3), ("backward", 2), ("edited", 1.5)])
    spec["k"] = rng.randint(0, 8)
    spec["reverse"] = rng.random() < 0.5
    spec["due"] = rng.random() < 0.4
    spec["edit"] = sorted(set(rng.randint(0, 6) for _ in range(rng.randint(1, 3))))
    spec["real_dir"] = rng.random() < 0.05
    if rng.random() < 0.06 and len(spec["model"]["teams"]) >= 2 and not spec["model"].get("assign_style") and not spec["model"].get("worker_copies"):
        # a worker listed by one team whose team_id names another team (he works on the other team's tasks)
        tms_ = [tm for tm in spec["model"]["teams"] if tm["workers"]]
        if tms_:
            tm_ = rng.choice(tms_)
            others_ = [x["id"] for x in spec["model"]["teams"] if x is not tm_]
            rng.choice(tm_["workers"])["team_id"] = rng.choice(others_)
    if rng.random() < 0.08:
        spec["cfg"]["unit_time"] = rng.choice([0.5, 1.5, 2])  # the clock advances by that much per step (project.time need not be an integer)
    spec["read_twice"] = rng.random() < 0.15
    if spec["read_twice"] and rng.random() < 0.4:
        spec["cont_rule"] = 4  # the continuation runs under the FIFO rule (which reads the state records of the tasks)
    if rng.random() < 0.05:
        spec["model"]["init_tz"] = rng.choice([0, 9, -5])  # init_datetime carries a time zone (hours east of UTC)
    if rng.random() < 0.1:
        # names outside ASCII and the file encoding option: the saved text is pure ASCII (escapes), so any encoding can hold it
        pool = ["\u4f5c\u696d\u8005", "\u9ad9\u6a4b", "t\u00e2che", "\u03a9-team", "p\u0142yta", "\U0001f527"]
        m = spec["model"]
        for grp in [m["teams"], m["comps"], m["wps"]] + [tm["workers"] for tm in m["teams"]]:
            for o_ in grp:
                if rng.random() < 0.5:
                    o_["name"] = rng.choice(pool) + o_["id"]
        spec["encoding"] = rng.choice(["utf-8", "shift_jis", "cp932", "latin-1", "ascii", "euc_jp"])
    if rng.random() < 0.25:
        subp = G.gen_profile(rng, {"facilities": False, "comps": False})
        spec["sub"] = {"model": G.gen_feasible(rng, subp), "cfg": G.gen_cfg(rng, subp, max_time=200), "file": "mem:sub0.json"}
        spec["sub"]["model"]["unit_s"] = rng.choice([60, 60, 3600, 86400, 129600])
        m = spec["model"]
        i = G.append_task(m, {"id": "t%d" % len(m["tasks"]), "work": 1.0,
                           "sub": {"file": "mem:sub0.json", "unit_s": rng.choice([60, 600, 86400, 129600]), "remove_abs": rng.random() < 0.5, "configure": rng.random() < 0.8}}, rng)
        if i > 0 and rng.random() < 0.5:
            m["deps"].append([rng.randrange(i), i, 0])
        if rng.random() < 0.35:
            # a sub-project task that is NOT automatic: it needs a worker like any other task
            m["tasks"][i]["auto"] = False
            tm = m["teams"][0]
            if i not in tm["targets"]:
                tm["targets"].append(i)
            tm["workers"][0]["skills"]["t%d" % i] = 1.0
        spec["ranks"] = G.gen_ranks(rng, m)
    if spec.get("stage", "built") == "built" and spec["model"].get("comps") and spec["model"].get("wps") and rng.random() < 0.25:
        # a never simulated plan in which the user has put a component somewhere with set_placed_workplace alone (the workplace's
        # own list does not mention it): the reference is part of the file and must come back as an object
        spec["preplaced"] = [[rng.randrange(len(spec["model"]["comps"])), rng.randrange(len(spec["model"]["wps"]))]
                             for _ in range(rng.randint(1, 2))]
    return spec


def extra_candidates(spec):
    if spec.get("preplaced"):
        c = dict(spec)
        c.pop("preplaced")
        yield c
    for st in ("built", "finished"):
        if spec.get("stage") != st and spec.get("stage") not in ("built",):
            c = dict(spec)
            c["stage"] = st
            yield c
    if spec.get("sub") is not None:
        from .. import shrink
        c = copy.deepcopy(spec)
        c.pop("sub")
        m = c["model"]
        for i in reversed([i for i, t in enumerate(m["tasks"]) if t.get("sub")]):
            if len(m["tasks"]) > 1:
                m = shrink.drop_task(m, i)
        c["model"] = m
        shrink.fix_ranks(c)
        if not any(t.get("sub") for t in m["tasks"]):
            yield c


def check_refs(res, p):
    """Every cross reference of ``p`` is an object of ``p`` (identity), no ID strings left in object slots."""
    ix = D.index(p)
    tasks, comps, teams, wps = ix.tasks, ix.comps, ix.teams, ix.wps
    workers, facs = ix.workers, ix.facs

    def member(x, pool):
        return any(x is y for y in pool)

    def bad(kind, owner, attr, x):
        res.add("refs", "C16.dangling_reference.%s.%s" % (kind, attr),
                "restored %s %s: %s holds %r which is not an object of the restored project" % (kind, getattr(owner, "ID", "?"), attr, x), None)

    for c in comps:
        for attr, pool in (("parent_component_list", comps), ("child_component_list", comps), ("targeted_task_list", tasks)):
            for x in getattr(c, attr):
                if not member(x, pool):
                    bad("component", c, attr, x)
        if c.placed_workplace is not None and not member(c.placed_workplace, wps):
            bad("component", c, "placed_workplace", c.placed_workplace)
    M = env.M
    for t in tasks:
        for attr in ("input_task_list", "output_task_list"):
            for pair in getattr(t, attr):
                if not (isinstance(pair, (list, tuple)) and len(pair) == 2 and member(pair[0], tasks)
                        and isinstance(pair[1], M.bt.BaseTaskDependency)):
                    bad("task", t, attr, pair)
        for attr, pool in (("allocated_team_list", teams), ("allocated_workplace_list", wps), ("allocated_worker_list", workers),
                           ("allocated_facility_list", facs)):
            for x in getattr(t, attr):
                if not member(x, pool):
                    bad("task", t, attr, x)
        if t.target_component is not None and not member(t.target_component, comps):
            bad("task", t, "target_component", t.target_component)
        if t.parent_workflow is not p.workflow:
            res.add("refs", "C16.dangling_reference.task.parent_workflow",
                    "restored task %s: parent_workflow is %r, not the restored workflow" % (t.ID, t.parent_workflow), None)
    for tm in teams:
        for x in tm.targeted_task_list:
            if not member(x, tasks):
                bad("team", tm, "targeted_task_list", x)
        if tm.parent_team is not None and not member(tm.parent_team, teams):
            bad("team", tm, "parent_team", tm.parent_team)
        for w in tm.worker_list:
            for x in w.assigned_task_list:
                if not member(x, tasks):
                    bad("worker", w, "assigned_task_list", x)
    for wp in wps:
        for attr, pool in (("targeted_task_list", tasks), ("placed_component_list", comps), ("input_workplace_list", wps),
                           ("output_workplace_list", wps)):
            for x in getattr(wp, attr):
                if not member(x, pool):
                    bad("workplace", wp, attr, x)
        if wp.parent_workplace is not None and not member(wp.parent_workplace, wps):
            bad("workplace", wp, "parent_workplace", wp.parent_workplace)
        for f in wp.facility_list:
            for x in f.assigned_task_list:
                if not member(x, tasks):
                    bad("facility", f, "assigned_task_list", x)


def _is_value(v, depth=0):
    import datetime as _dt
    if v is None or isinstance(v, (bool, int, float, str, _dt.datetime, _dt.timedelta)):
        return True
    if depth > 4:
        return False
    if isinstance(v, (list, tuple)):
        return all(_is_value(x, depth + 1) for x in v)
    if isinstance(v, dict):
        return all(isinstance(k, str) and _is_value(x, depth + 1) for k, x in v.items())
    return False


def _norm(v):
    if isinstance(v, tuple):
        return [_norm(x) for x in v]
    if isinstance(v, list):
        return [_norm(x) for x in v]
    if isinstance(v, dict):
        return {k: _norm(x) for k, x in v.items()}
    if isinstance(v, bool) or v is None or isinstance(v, str):
        return v
    if isinstance(v, int):
        return int(v)
    import datetime as _dt
    if isinstance(v, _dt.datetime) and v.tzinfo is not None:
        return v.replace(tzinfo=None)  # the saved format holds the wall-clock reading; the zone is not a simulation setting
    return v


# "advanced" customisation variables: not used by the base simulation, derived at initialize or not logged; outside
# "every simulation-relevant model parameter"
ADVANCED = {"additional_work_amount", "additional_task_flag", "actual_work_amount", "error_tolerance", "error",
            "quality_skill_mean_map", "quality_skill_sd_map"}


def check_attributes(res, orig, new, stage):
    """Every constructor parameter that holds a plain value on the original object must have an equal value on the
    restored object (object references are covered by check_refs)."""
    import inspect

    ixo, ixn = D.index(orig), D.index(new)
    pairs = [("project", orig, new)]
    for kind, a, b in (("task", ixo.task, ixn.task), ("component", ixo.comp, ixn.comp), ("worker", ixo.worker, ixn.worker),
                       ("facility", ixo.fac, ixn.fac), ("team", ixo.team, ixn.team), ("workplace", ixo.wp, ixn.wp)):
        for oid, o in a.items():
            if oid in b:
                pairs.append((kind, o, b[oid]))
            else:
                res.add("attrs", "C16.object_missing_after_restore.%s" % kind, "stage %s: %s %s is missing in the restored project" % (stage, kind, oid), None)
    for kind, o, n in pairs:
        cls = next((c_ for c_ in type(o).__mro__ if c_.__module__.startswith("pDESy.")), type(o))  # skip the harness subclass
        try:
            params = [p_ for p_ in inspect.signature(cls.__init__).parameters if p_ != "self"]
        except (TypeError, ValueError):
            continue
        for name in params:
            if name in ADVANCED or not hasattr(o, name):
                continue
            vo = getattr(o, name)
            if not _is_value(vo):
                continue
            if vo is None and hasattr(n, name) and not _is_value(getattr(n, name)):
                continue  # an object slot that was still empty (e.g. parent_workflow before the first initialize)
            if not hasattr(n, name):
                res.add("attrs", "C16.attribute_lost.%s.%s" % (kind, name), "stage %s: restored %s %s has no attribute %s" % (stage, kind, getattr(o, "ID", ""), name), None)
                continue
            vn = getattr(n, name)
            if not _is_value(vn) or _norm(vo) != _norm(vn):
                res.add("attrs", "C16.attribute_differs.%s.%s" % (kind, name),
                        "stage %s: %s %s: %s was %r before saving and is %r in the restored project" % (stage, kind, getattr(o, "ID", ""), name, vo, vn), None)


def json_diff_key(a, b):
    """Name the first differing field of two exported files by its attribute name (no IDs, no indices)."""
    d = D.first_diff(a, b)
    if d is None:
        return None, None
    path = d[0]
    parts = [x for x in path.replace("]", "").replace("[", "/").split("/") if x and not x.isdigit()]
    attr = parts[-1] if parts else "?"
    return attr, d


def settings_tags(model):
    tags = []
    if any(t.get(k) is not None for t in model["tasks"] for k in ("wrule", "frule", "prule")):
        tags.append("task_rules")
    if any(w.get("mainwp") for tm in model["teams"] for w in tm["workers"]):
        tags.append("main_workplace_id")
    if any(wp.get("inputs") for wp in model["wps"]):
        tags.append("workplace_inputs")
    if any(t.get("sub") for t in model["tasks"]):
        tags.append("subproject_task")
    return tags


def run(spec):
    scen.setup_run(spec.get("seed", 0))
    res = C.campaign.Result()
    res.count("runs")
    model, cfg, ranks = spec["model"], spec["cfg"], spec.get("ranks")
    stage = spec.get("stage", "built")
    res.count("stage_" + stage)
    tags = settings_tags(model)
    for t in tags:
        res.count({"task_rules": "with_task_rules", "main_workplace_id": "with_mainwp", "workplace_inputs": "with_conveyor",
                   "subproject_task": "with_subproject_task"}[t])
    if spec.get("sub") is not None:
        scen.prepare_subproject(spec["sub"], spec.get("seed", 0))
    b = B.build(model, ranks)
    if spec.get("sub") is not None:
        scen.configure_subtasks(b, model)
        if any(t.get("sub") and not t["sub"].get("configure", True) for t in model["tasks"]):
            res.count("unconfigured_subproject_task")
        if any(t.get("sub") and t.get("auto") is False for t in model["tasks"]):
            res.count("non_auto_subproject_task")
    p = b.project
    seams.attach(p)
    out = None
    if spec.get("preplaced") and stage == "built":
        res.count("preplaced_component")
        for ci_, wi_ in spec["preplaced"]:
            p.product.component_list[ci_ % len(p.product.component_list)].set_placed_workplace(
                p.organization.workplace_list[wi_ % len(p.organization.workplace_list)], set_to_all_children=False)
    if stage == "initialized":
        D.call(lambda: p.initialize())
    elif stage == "paused":
        c2 = dict(cfg)
        c2["max_time"] = spec.get("k", 3)
        rec, out = scen.simulate(p, c2, want_snap=False)
    elif stage in ("finished", "edited"):
        rec, out = scen.simulate(p, cfg, want_snap=False)
        if stage == "edited" and out.ok:
            D.call(lambda: p.insert_absence_time_list(list(spec.get("edit", []))))
    elif stage == "backward":
        rec, out = scen.simulate(p, cfg, want_snap=False, backward={"due": spec.get("due"), "reverse": spec.get("reverse")})
    if out is not None:
        res.steps = rec.n_recorded
        if not out.ok:
            res.count("sut_exception_before_save")
            res.digest = "exc"
            return res
    if any(t.lst == 0.0 or t.lft == 0.0 for t in p.workflow.task_list):
        res.count("zero_lst_value")
    path = "mem:c16.json"
    tmpdir = None
    if spec.get("real_dir"):
        import tempfile
        tmpdir = tempfile.mkdtemp(prefix="verif-c16-")
        path = tmpdir + "/p.json"
        res.count("real_directory_used")
    try:
        enc = spec.get("encoding")
        ekw = {"encoding": enc} if enc else {}
        if enc:
            res.count("encoding_option_used")
        ow = D.call(lambda: p.write_simple_json(path, **ekw))
        if not ow.ok:
            res.add("write", "C16.write_raises.%s@%s" % (ow.exc_type, ow.where),
                    "write_simple_json at stage %s raised %s(%s)" % (stage, ow.exc_type, ow.msg), None)
            res.digest = "write"
            return res
        M = env.M
        new = M.bp.BaseProject()
        orr = D.call(lambda: new.read_simple_json(path, **ekw))
        if not orr.ok and orr.exc_type in ("FileNotFoundError", "OSError", "NotADirectoryError", "PermissionError") and tmpdir is None:
            # the in-memory file system only answers open(): a library that also asks the real file system about the path
            # (os.stat, os.path.exists ...) must be judged on real files, not on the seam's blind spot
            return run(dict(spec, real_dir=True))
        if not orr.ok:
            res.add("read", "C16.read_raises.%s@%s" % (orr.exc_type, orr.where),
                    "read_simple_json of a file written at stage %s raised %s(%s)" % (stage, orr.exc_type, orr.msg), None)
            res.digest = "read"
            return res
        text1 = seams.MEMFS[path] if path.startswith("mem:") else open(path, encoding=(enc or "utf-8")).read()
        path2 = "mem:c16b.json" if tmpdir is None else tmpdir + "/p2.json"
        ow2 = D.call(lambda: new.write_simple_json(path2, **ekw))
        if not ow2.ok:
            res.add("write", "C16.rewrite_raises.%s@%s" % (ow2.exc_type, ow2.where),
                    "write_simple_json of the restored project (stage %s) raised %s(%s)" % (stage, ow2.exc_type, ow2.msg), None)
        else:
            text2 = seams.MEMFS[path2] if path2.startswith("mem:") else open(path2, encoding=(enc or "utf-8")).read()
            j1, j2 = json.loads(text1), json.loads(text2)
            attr, d = json_diff_key(j1, j2)
            if attr is not None:
                res.add("roundtrip", "C16.roundtrip_differs.%s" % attr,
                        "stage %s: file written by the restored project differs from the original file at %s: %r vs %r" % (stage, d[0], d[1], d[2]), None)
        check_refs(res, new)
        check_attributes(res, p, new, stage)
        refs_done = True
        if spec.get("read_twice") and out is not None and ow2.ok:
            # a project restored from the file goes on (its logs grow in place); the file has not changed, so reading it a second
            # time gives the file again
            res.count("file_read_twice")
            pa = M.bp.BaseProject()
            if D.call(lambda: pa.read_simple_json(path, **ekw)).ok:
                seams.attach(pa)
                seams.rerank(pa, ranks or {})
                ccfg = dict(cfg, init_state=False, init_log=False)
                if spec.get("cont_rule") is not None:
                    ccfg["rule"] = spec["cont_rule"]
                ra_, oa_ = scen.simulate(pa, ccfg, want_snap=False)
                if stage in ("paused", "finished"):
                    # ... and it goes on exactly as the original goes on
                    ro_, oo_ = scen.simulate(p, ccfg, want_snap=False)
                    da_, do_ = D.dump(pa), D.dump(p)
                    da_["_outcome"], do_["_outcome"] = [oa_.ok, oa_.exc_type, oa_.where], [oo_.ok, oo_.exc_type, oo_.where]
                    dd_ = D.first_diff(do_, da_)
                    res.count("continued_twin_compared")
                    if dd_ is not None:
                        res.add("behaviour", "C16.continuation_of_restored_project_differs.%s" % stage,
                                "stage %s: continued with initialize_state_info=False, initialize_log_info=False the restored project differs "
                                "from the original continued the same way at %s: %r vs %r" % (stage, dd_[0], dd_[1], dd_[2]), None)
                pb = M.bp.BaseProject()
                ob = D.call(lambda: pb.read_simple_json(path, **ekw))
                path3 = "mem:c16c.json" if tmpdir is None else tmpdir + "/p3.json"
                if ob.ok and D.call(lambda: pb.write_simple_json(path3, **ekw)).ok:
                    text3 = seams.MEMFS[path3] if path3.startswith("mem:") else open(path3, encoding=(enc or "utf-8")).read()
                    attr, d = json_diff_key(json.loads(text1), json.loads(text3))
                    if attr is not None:
                        res.add("roundtrip", "C16.second_read_of_unchanged_file_differs.%s" % attr,
                                "stage %s: the file was read, the restored project continued, and the unchanged file read again: the second "
                                "project's export differs from the file at %s: %r vs %r" % (stage, d[0], d[1], d[2]), None)
                elif not ob.ok:
                    res.add("read", "C16.second_read_raises.%s@%s" % (ob.exc_type, ob.where), "second read_simple_json of the unchanged file raised %s" % ob.msg, None)
    finally:
        if tmpdir is not None:
            import shutil
            shutil.rmtree(tmpdir, ignore_errors=True)
    # behavioural twin: simulate both from scratch under the same schedule and configuration
    seams.attach(new)
    seams.rerank(new, ranks or {})
    rec1, o1 = scen.simulate(p, cfg, want_snap=False)
    rec2, o2 = scen.simulate(new, cfg, want_snap=False)
    res.count("resimulated_twin")
    d1, d2 = D.dump(p), D.dump(new)
    d1["_outcome"] = [o1.ok, o1.exc_type, o1.where]
    d2["_outcome"] = [o2.ok, o2.exc_type, o2.where]
    diff = D.first_diff(d1, d2)
    if diff is not None:
        tg = "+".join(tags) if tags else "only_saved_settings"
        res.add("behaviour", "C16.resimulation_differs.%s" % tg,
                "stage %s: simulate() of the restored project differs from simulate() of the original (model uses: %s) at %s: %r vs %r"
                % (stage, tags or "default settings only", diff[0], diff[1], diff[2]), None)
    res.nontrivial = stage != "built" or bool(tags)
    res.digest = D.digest(d1)
    return res
