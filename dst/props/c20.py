"""C20 - a sub-project task lasts exactly as long as the sub-project it stands for."""
import copy
import math
import warnings

from .. import build as B
from .. import director as D
from .. import env, gen as G, scen, seams
from . import common as C
from .common import NONE, READY, WORKING, FINISHED, Static

ID = "C20"
LEVEL = "exploration"
DESIGN_REF = "DESIGN.md section 5, C20"
TECHNIQUE = "deterministic simulation: seeded sub-project is simulated and saved (in-memory file), a sub-project task is configured from the file and simulated inside a seeded parent under absence faults; duration oracle on live snapshots"
RULE = ("seeded feasible sub-project (any duration, with/without absence steps incl. beyond-the-end entries) is simulated and written to "
        "a file; a BaseSubProjectTask is configured from it with both remove_absence_time_list values, its unit time is related to the "
        "parent's (pairs from 1,2,3,7,10,20,60 min, 1 d), it is put at a seeded position (FS/SS inputs, any outputs) of a seeded parent "
        "workflow which is simulated under project-wide absences: work amount == sub duration (minus its in-range absence steps if "
        "removed), the task starts at the first step its gates allow, performs for exactly ceil(d*u_sub/u_par) working steps and is "
        "FINISHED at the next update, holds no worker; configuring from a never-simulated or failed sub-project warns and leaves "
        "__dict__ unchanged. Non-trivial = the sub-project task ran to FINISHED with duration >= 2 steps or the refusal clause was "
        "exercised; distinct = scenario digests")
ASSUMPTIONS = ["the sub-project task has only FS/SS inputs (FF/SF inputs could hold it at zero, which is C01/C02's business)",
               "parent unit_time = 1", "file system replaced by the in-memory open()"]
LEVEL_TEXT = "Seeded exploration over sub-project results, unit pairs, positions in the parent workflow and parent absences."
LEVEL_NOTE = "Trusted: harness observers, the ceil() reference formula; sampling evidence only."
PROBES = ["parent_paused_and_restored", "reconfigured_after_resave", "sub_result_edited_before_saving", "sub_simulated_with_unit_time", "refusal_with_explicit_path", "configured_ok", "refusal_unsimulated", "refusal_failed", "remove_abs_true", "sub_with_absence", "sub_absence_beyond_end",
          "unit_ratio_gt1", "unit_ratio_lt1", "unit_ratio_non_integer", "parent_absence_during_subtask", "subtask_finished", "with_predecessor", "configured_twice", "sub_from_backward_simulation", "parent_json_roundtrip"]

UNITS = [60, 120, 180, 420, 600, 1200, 3600, 86400, 129600]


def budget(tier):
    return 1500 if tier == "quick" else 400000


def gen(rng, tier):
    subp = G.gen_profile(rng, {"facilities": False, "comps": False, "proj_abs": rng.random() < 0.6})
    subm = G.gen_feasible(rng, subp)
    subcfg = G.gen_cfg(rng, subp, max_time=400)
    us = rng.choice(UNITS)
    up = rng.choice(UNITS) if rng.random() < 0.8 else us
    for _ in range(6):
        if us / float(up) > 30:  # keep the parent run short: at most ~30 parent steps per sub-project step
            up = rng.choice(UNITS)
    subm["unit_s"] = us
    if rng.random() < 0.12:
        # the sub-project was simulated with a clock that advances by 2 or 3 per step: its duration is its time, not its number of log entries
        subcfg["unit_time"] = rng.choice([2, 3])
        subcfg["absence"] = []
    mode = G.wchoice(rng, [("ok", 8), ("unsimulated", 1), ("failed", 1)])
    if mode == "failed":
        subcfg["max_time"] = rng.randint(0, 1)
    pp = G.gen_profile(rng, {"facilities": False, "comps": False, "kinds": [0, 1] if rng.random() < 0.5 else [0]})
    pm = G.gen_model(rng, pp, n_tasks=rng.randint(1, 5))
    pm["unit_s"] = up
    i = G.append_task(pm, {"id": "sub", "work": 1.0, "sub": {"file": "mem:sub.json", "unit_s": 60, "remove_abs": rng.random() < 0.5}}, rng)
    for j in range(i):
        if rng.random() < 0.35:
            pm["deps"].append([j, i, rng.choice(pp["kinds"])])
    # some outputs: move the sub task earlier in the order is not needed: edges go low->high, so give it successors by
    # appending ordinary tasks after it
    if rng.random() < 0.4:
        G.append_task(pm, {"id": "after", "work": rng.choice([0.5, 1.0, 2.0])}, rng)
        pm["deps"].append([i, i + 1, rng.choice([0, 1, 2, 3])])
        pm["teams"][0]["targets"].append(i + 1)
        pm["teams"][0]["workers"][0]["skills"]["after"] = 1.0
    if rng.random() < 0.15:
        # the sub-project task works on a component of its own, in a workplace of its own that can always take it
        pm["comps"] = list(pm.get("comps") or []) + [{"id": "csub", "size": 1.0, "children": []}]
        pm["tasks"][i]["comp"] = len(pm["comps"]) - 1
        if rng.random() < 0.5:
            pm["tasks"][i]["nf"] = True  # automatic and facility-needing: automatic wins, nothing is allocated
        pm["wps"] = list(pm.get("wps") or []) + [{"id": "psub", "cap": rng.choice([1.0, 2.0, float("inf")]), "targets": [i], "inputs": [],
                                                   "facs": [{"id": "fsub", "skills": {"sub": 1.0}, "cost": 0.0}]}]
        pm.pop("reg_order", None)
    elif rng.random() < 0.12:
        # the sub-project task has no component but is registered as a targeted task of a workplace
        pm["wps"] = list(pm.get("wps") or []) + [{"id": "pw", "cap": 1.0, "targets": [i], "inputs": [],
                                                   "facs": [{"id": "fw", "skills": {"sub": 1.0}, "cost": 0.0}]}]
        pm.pop("reg_order", None)
    preconf = rng.random() < 0.3
    pcfg = G.gen_cfg(rng, pp, max_time=None)
    pcfg["max_time"] = 2500
    pcfg["auto_flag"] = rng.random() < 0.25
    subspec = {"model": subm, "cfg": subcfg, "ranks": G.gen_ranks(rng, subm), "file": "mem:sub.json", "simulate": mode != "unsimulated"}
    if mode == "ok" and rng.random() < 0.2:
        subspec["backward"] = {"due": False, "reverse": True}  # the sub-project result comes from a backward simulation
    extra = {}
    if mode == "ok" and rng.random() < 0.12:
        first = copy.deepcopy(subspec)
        for t_ in first["model"]["tasks"]:
            t_["work"] = t_["work"] + rng.choice([1.0, 2.0])
        first.pop("backward", None)
        extra["first_sub"] = first
    if mode == "ok" and subspec.get("backward") is None and subcfg.get("unit_time", 1) == 1 and rng.random() < 0.15:
        a_ = rng.randint(0, 4)
        subspec["edit"] = rng.choice([[a_], [a_, a_ + 2], [a_ + 2, a_]])
        if subcfg.get("absence") and rng.random() < 0.5:
            # inserted steps around a step that is an absence step already
            a_ = rng.choice(subcfg["absence"])
            subspec["edit"] = rng.choice([[max(0, a_ - 1), a_ + 1], [a_, a_ + 1], [a_ + 1, a_], [a_ + 1, max(0, a_ - 1)]])
    if mode == "ok" and rng.random() < 0.12:
        extra["pause_json"] = rng.randint(1, 10)
    extra["pre_same"] = rng.random() < 0.5
    if rng.random() < 0.2:
        extra["pre_unit_s"] = rng.choice([30, 60, 90, 120, 600, 3600])
    return {**extra, "sub": subspec, "parent_json": rng.random() < 0.25, "explicit_path": mode != "ok" and rng.random() < 0.5,
            "preconfigure": preconf, "mode": mode, "model": pm, "cfg": pcfg, "ranks": G.gen_ranks(rng, pm), "profile": pp}


def extra_candidates(spec):
    from .. import shrink
    for k_ in ("first_sub", "pause_json", "pre_unit_s"):
        if spec.get(k_) is not None:
            c = copy.deepcopy(spec)
            c.pop(k_)
            yield c
    if spec["sub"].get("edit"):
        c = copy.deepcopy(spec)
        c["sub"].pop("edit")
        yield c
    for m in shrink.model_candidates(spec["sub"]["model"]):
        c = copy.deepcopy(spec)
        c["sub"]["model"] = m
        ids = [t["id"] for t in m["tasks"]]
        c["sub"]["ranks"] = {k: v for k, v in c["sub"]["ranks"].items() if k in ids}
        yield c
    for cfg in shrink.cfg_candidates(spec["sub"]["cfg"]):
        c = copy.deepcopy(spec)
        c["sub"]["cfg"] = cfg
        yield c


def run(spec):
    scen.setup_run(spec.get("seed", 0))
    res = C.campaign.Result()
    res.count("runs")
    sub = spec["sub"]
    model = spec["model"]
    st = Static(model)
    pre_built = None
    if spec.get("first_sub") is not None:
        # an earlier result is saved to the same file and the task is configured from it; then the sub-project is revised,
        # simulated again and saved to the same file: configuring again must take the revised result
        res.count("reconfigured_after_resave")
        scen.prepare_subproject(spec["first_sub"], spec.get("seed", 0))
        pre_built = B.build(model, spec.get("ranks"))
        t0_ = [t for t in pre_built.tasks if t.ID == "sub"][0]
        D.call(lambda: t0_.set_all_attributes_from_json(remove_absence_time_list=bool(st.tasks["sub"]["sub"].get("remove_abs", False))))
    sp, so, sw = scen.prepare_subproject(sub, spec.get("seed", 0))
    if not sw.ok or (so is not None and not so.ok):
        res.count("sub_preparation_failed")
        res.digest = "subfail"
        return res
    b = pre_built if pre_built is not None else B.build(model, spec.get("ranks"))
    p = b.project
    task = [t for t in b.tasks if t.ID == "sub"][0]
    tj = st.tasks["sub"]["sub"]
    remove = bool(tj.get("remove_abs", False))
    if spec.get("preconfigure") and sub.get("simulate", True) and int(sp.status) == 1:
        # the task is configured twice from the same unchanged file: first with the opposite (or the same) remove flag, then with
        # the intended one (the last call counts, and reading a file leaves nothing behind that changes the next reading)
        res.count("configured_twice")
        pre_remove = remove if spec.get("pre_same") else not remove
        D.call(lambda: task.set_all_attributes_from_json(remove_absence_time_list=pre_remove))
    ckw = {}
    if spec.get("explicit_path") and not (sub.get("simulate", True) and int(sp.status) == 1):
        # the refused file is named in the call; the task's own file_path is another one and must stay what it is
        res.count("refusal_with_explicit_path")
        task.file_path = "mem:own.json"
        ckw["file_path"] = sub["file"]
    before = dict(task.__dict__)
    before_repr = {k: repr(v) for k, v in before.items() if k != "_rank"}
    with warnings.catch_warnings(record=True) as wlist:
        warnings.simplefilter("always")
        prev = seams.CUR
        try:
            ret = task.set_all_attributes_from_json(remove_absence_time_list=remove, **ckw)
            exc = None
        except Exception as e:  # SUT exception
            ret, exc = None, e
        finally:
            seams.CUR = prev
    mode = spec.get("mode", "ok")
    sub_ok = sub.get("simulate", True) and int(sp.status) == 1
    if exc is not None:
        res.add("configure", "C20.configure_raises.%s.%s" % (type(exc).__name__, "ok" if sub_ok else "refusal"),
                "set_all_attributes_from_json raised %r (sub-project status %d)" % (exc, int(sp.status)), None)
        res.digest = "exc"
        return res
    if not sub_ok:
        res.count("refusal_unsimulated" if not sub.get("simulate", True) else "refusal_failed")
        after_repr = {k: repr(v) for k, v in task.__dict__.items() if k != "_rank"}
        if not wlist:
            res.add("refusal", "C20.refusal_without_warning", "configuring from a sub-project with status %d gave no warning" % int(sp.status), None)
        if after_repr != before_repr:
            changed = sorted(k for k in set(after_repr) | set(before_repr) if after_repr.get(k) != before_repr.get(k))
            res.add("refusal", "C20.refusal_changed_task", "configuring from a sub-project with status %d changed task attributes %s" % (int(sp.status), changed), None)
        res.nontrivial = True
        res.digest = "refusal"
        return res
    res.count("configured_ok")
    d_sub = sp.time
    L = sub["cfg"].get("absence", [])
    d_before_edit = getattr(sp, "_verif_time_before_edit", d_sub)
    n_inserted = d_sub - d_before_edit
    if sub.get("edit"):
        res.count("sub_result_edited_before_saving")
    inrange = set(a for a in L if 0 <= a < d_before_edit)  # (mirroring a backward result keeps the number of in-range absence steps)
    if sub.get("backward") is not None:
        res.count("sub_from_backward_simulation")
    if L:
        res.count("sub_with_absence")
    if any(a >= d_sub for a in L):
        res.count("sub_absence_beyond_end")
    if remove:
        res.count("remove_abs_true")
    if sub["cfg"].get("unit_time", 1) != 1:
        res.count("sub_simulated_with_unit_time")
    exp_work = d_sub - ((len(inrange) + n_inserted) if remove else 0)  # (inserted steps are absence steps as well)
    if task.default_work_amount != exp_work:
        res.add("work", "C20.work_amount.remove_%s%s" % (remove, ".beyond_end" if any(a >= d_sub for a in L) else ""),
                "sub-project ran %d steps with absence list %s; configured with remove_absence_time_list=%s the task has work amount %r, expected %r"
                % (d_sub, L, remove, task.default_work_amount, exp_work), None)
    us, up = sub["model"].get("unit_s", 60), model.get("unit_s", 60)
    if task.unit_timedelta.total_seconds() != us:
        res.add("unit", "C20.unit_timedelta", "task.unit_timedelta=%r, sub-project unit is %ds" % (task.unit_timedelta, us), None)
    if spec.get("parent_json"):
        # the configured parent is saved and loaded before the unit times are related
        res.count("parent_json_roundtrip")
        newp, ow, orr = scen.save_load(p, "mem:parent.json", spec.get("ranks"))
        if newp is None:
            bad = ow if not ow.ok else orr
            res.add("parent_json", "C20.parent_json_roundtrip_raises.%s@%s" % (bad.exc_type, bad.where), "saving/loading the configured parent raised %s" % bad.msg, None)
            res.digest = "pjson"
            return res
        p = newp
        task = [t for t in p.workflow.task_list if t.ID == "sub"][0]
    if spec.get("pre_unit_s") is not None:
        # the task was related to a parent project with another time unit before (a what-if study): the last relation counts
        import datetime as _dt
        res.count("related_to_another_unit_before")
        D.call(lambda: task.set_work_amount_progress_of_unit_step_time(_dt.timedelta(seconds=spec["pre_unit_s"])))
    D.call(lambda: task.set_work_amount_progress_of_unit_step_time(p.unit_timedelta))
    if up > us:
        res.count("unit_ratio_gt1")
    elif up < us:
        res.count("unit_ratio_lt1")
    if (exp_work * us) % up != 0:
        res.count("unit_ratio_non_integer")
    n_exp = int(math.ceil(exp_work * us / float(up) - 1e-9)) if exp_work > 0 else 0
    # simulate the parent
    rec = None
    if spec.get("pause_json") is not None:
        # the parent run is paused at some step, written to a file, read into a new project and continued there: the
        # sub-project task still occupies exactly the expected number of working steps
        rec1, out1 = scen.simulate(p, dict(spec["cfg"], max_time=spec["pause_json"]))
        if out1.ok and int(p.status) != 1:
            newp, ow, orr = scen.save_load(p, "mem:parentpause.json", spec.get("ranks"))
            if newp is not None:
                res.count("parent_paused_and_restored")
                p = newp
                task = [t for t in p.workflow.task_list if t.ID == "sub"][0]
                rec2, out = scen.simulate(p, dict(spec["cfg"], init_state=False, init_log=False))

                class _Joined(object):
                    pass
                rec = _Joined()
                rec.steps = [s_ for s_ in rec1.steps if s_.ph.get("recorded") is not None] + list(rec2.steps)
                rec.n_recorded = rec1.n_recorded + rec2.n_recorded
                rec.ix = rec2.ix
    if rec is None:
        rec, out = scen.simulate(p, spec["cfg"])
    res.steps = rec.n_recorded
    if not out.ok:
        res.count("parent_sut_exception")
        res.digest = "pexc"
        return res
    absn = set(spec["cfg"].get("absence", []))
    flag = bool(spec["cfg"].get("auto_flag", False))
    if st.preds["sub"]:
        res.count("with_predecessor")
    k_ready = None
    started_prev = {tid: st.exempt(tid) for tid in st.order}  # FINISHED from the start counts as started
    perf = []
    fin_at = None
    steps = rec.steps
    for s in steps:
        U, A, R = s.ph.get("updated"), s.ph.get("allocated"), s.ph.get("recorded")
        if U is None:
            break
        k = s.t
        if fin_at is None and U["T"]["sub"][0] == FINISHED:
            fin_at = k
        if k_ready is None:
            ok = True
            for (pp_, kind) in st.preds["sub"]:
                if kind == G.FS and U["T"][pp_][0] != FINISHED:
                    ok = False
                if kind == G.SS and not started_prev[pp_]:
                    ok = False
            if ok:
                k_ready = k
                if U["T"]["sub"][0] == NONE:
                    res.add("start", "C20.not_ready_when_gates_open", "step %d: all gates of the sub-project task are open but it is NONE" % k, k)
        if A is None or R is None:
            break
        # (a task bound to a component starts where the component is placed, and components are placed by the allocation, which
        # does not take place at absence steps: with the auto flag such a task goes on at an absence step, it does not start there)
        can_run = (k not in absn) or (flag and (st.tasks["sub"].get("comp") is None or U["T"]["sub"][0] == WORKING))
        if k_ready is not None and fin_at is None:
            if can_run:
                if A["T"]["sub"][0] != WORKING:
                    res.add("start", "C20.not_working_although_gates_open", "step %d (%s): the sub-project task is %d after allocation although its gates are open since step %d"
                            % (k, "working" if k not in absn else "absence+flag", A["T"]["sub"][0], k_ready), k)
                perf.append(k)
            elif A["T"]["sub"][0] == WORKING and R["T"]["sub"][1] != U["T"]["sub"][1]:
                res.add("progress", "C20.progress_in_absence", "absence step %d: the sub-project task progressed without perform_auto_task_while_absence_time" % k, k)
            if k in absn and perf:
                res.count("parent_absence_during_subtask")
        if A["T"]["sub"][2] or R["T"]["sub"][2]:
            res.add("worker", "C20.holds_worker", "step %d: the sub-project task holds workers %s" % (k, list(A["T"]["sub"][2])), k)
        for tid in st.order:
            if R["T"][tid][0] in (WORKING, FINISHED, 3):
                started_prev[tid] = True
    if fin_at is not None:
        res.count("subtask_finished")
        n_perf = len([k for k in perf if k < fin_at])
        if n_perf != max(n_exp, 1 if exp_work >= 0 else 0) and not (exp_work == 0 and n_perf == 1):
            res.add("duration", "C20.duration.%s" % ("ratio_integer" if (exp_work * us) % up == 0 else "ratio_fractional"),
                    "sub-project duration %d steps of %ds (work amount %r), parent unit %ds: expected ceil = %d performing steps, the task performed "
                    "in steps %s and was FINISHED at the update of step %d" % (d_sub, us, exp_work, up, n_exp, [k for k in perf if k < fin_at], fin_at), fin_at)
        elif perf and fin_at != [k for k in perf if k < fin_at][-1] + 1 if [k for k in perf if k < fin_at] else False:
            last = [k for k in perf if k < fin_at][-1]
            # between the last performing step and the finishing update only absence steps without flag may lie
            gap = [k for k in range(last + 1, fin_at)]
            if gap:
                res.add("duration", "C20.finished_late", "the task performed its last step at %d but turned FINISHED only at the update of step %d" % (last, fin_at), fin_at)
    elif int(p.status) == 1:
        res.add("duration", "C20.never_finished_but_success", "project reports success but the sub-project task never showed FINISHED at an update", None)
    elif k_ready is not None and len(perf) > max(n_exp, 1) + 1:
        res.add("duration", "C20.not_finished_after_expected_steps.%s" % ("parent_unit_ge_1day" if up >= 86400 else "other"),
                "sub-project duration %d steps of %ds (work amount %r), parent unit %ds: expected %d performing steps, but after %d performing "
                "steps (from step %d) the task is still not FINISHED (remaining %r, rate %r)"
                % (d_sub, us, exp_work, up, n_exp, len(perf), perf[0], task.remaining_work_amount, task.work_amount_progress_of_unit_step_time), perf[-1])
    res.nontrivial = fin_at is not None and exp_work >= 2
    res.digest = D.digest(D.dump(p, rec.ix))
    return res
