"""C08 - every log has one entry per simulated step, equal to that step's live state."""
import copy

from .. import build as B
from .. import director as D
from .. import gen as G, scen, seams
from . import common as C

ID = "C08"
LEVEL = "exploration"
DESIGN_REF = "DESIGN.md section 5, C08"
TECHNIQUE = "deterministic simulation, stateful: seeded API histories (simulate / pause+resume / initialize / backward_simulate / reverse_log_information) with the Director's own snapshot history as reference log"
RULE = ("seeded models and seeded histories of simulate(any initialize_state_info/initialize_log_info combination, time limits, "
        "absences), pause+resume, initialize(state_info, log_info), backward_simulate(reverse on/off, due times) and "
        "reverse_log_information; the Director keeps its own history of 'recorded' snapshots (reset/reversed as the op demands); after "
        "every op every per-step log of every object has exactly that many entries, project.time equals it, and every entry equals "
        "the live value recorded by the Director (display rule for absence steps). Non-trivial = history with >=2 ops that "
        "simulated >=1 step each; distinct = scenario digests")
ASSUMPTIONS = ["unit_time = 1", "cost log *contents* are C07's business; here cost logs are checked for length", "models <= 8 tasks"]
LEVEL_TEXT = ("Seeded stateful exploration of API histories; the Director's own per-step snapshot history is the reference every log is "
              "compared with after every operation.")
LEVEL_NOTE = "Trusted: harness observers (a step is what reaches the 'recorded' instant); sampling evidence only."
PROBES = ["op_sim", "op_resume", "op_initialize", "op_backward", "op_reverse_log", "op_sim_keep_log", "op_sim_keep_state",
          "absence_step_logged", "time_limit_hit", "entries_compared", "op_reload"]


def budget(tier):
    return 4000 if tier == "quick" else 1500000


def gen(rng, tier):
    focus = {}
    if rng.random() < 0.4:
        focus.update(comps=True, facilities=True)
    spec = C.forward_spec(rng, tier, focus, max_time=rng.choice([6, 12, 25, 40]))
    p = spec["profile"]
    ops = []
    for _ in range(rng.randint(1, 5)):
        r = rng.random()
        if r < 0.35:
            cfg = G.gen_cfg(rng, p, max_time=rng.choice([3, 8, 15, 40]))
            cfg["init_state"] = rng.random() < 0.7
            cfg["init_log"] = rng.random() < 0.7
            ops.append({"op": "sim", "cfg": cfg})
        elif r < 0.5:
            ops.append({"op": "resume", "max_time": rng.choice([10, 25, 60])})
        elif r < 0.62:
            if rng.random() < 0.3:
                ops.append({"op": "reload"})  # the project is written to a file and read back into a new project: a resume may follow
            else:
                ops.append({"op": "initialize", "state": rng.random() < 0.5, "log": rng.random() < 0.5})
        elif r < 0.85:
            cfg = G.gen_cfg(rng, p, max_time=rng.choice([8, 15, 40]))
            if rng.random() < 0.3:
                cfg["init_state"] = rng.random() < 0.5
                cfg["init_log"] = rng.random() < 0.5
            ops.append({"op": "backward", "cfg": cfg, "due": rng.random() < 0.4, "reverse": rng.random() < 0.6})
        else:
            ops.append({"op": "reverse_log"})
    spec["ops"] = ops
    if rng.random() < 0.08:
        # the very first run on freshly built objects keeps "the logs" (there are none yet) and/or the state
        spec["cfg"]["init_log"] = False
        spec["cfg"]["init_state"] = rng.random() < 0.5
    elif rng.random() < 0.08 and not any(op.get("op") == "reload" for op in ops):
        spec["model"]["worker_copies"] = True  # workers are shallow copies of one template object
        spec["model"]["comp_copies"] = True
    if rng.random() < 0.1:
        m = spec["model"]
        n0 = len(m["tasks"])
        i = G.append_task(m, {"id": "tsub", "work": rng.choice([1.0, 2.0, 3.0]), "rate": rng.choice([0.5, 1.0, 2.0]),
                              "sub": {"file": None, "unit_s": 60}}, rng)
        for a in range(n0):
            if rng.random() < 0.3:
                m["deps"].append([a, i, rng.choice(p["kinds"])])
        spec["ranks"]["tsub"] = max(spec["ranks"].values()) + 1
    return spec


def extra_candidates(spec):
    ops = spec.get("ops", [])
    for i in range(len(ops)):
        c = dict(spec)
        c["ops"] = ops[:i] + ops[i + 1:]
        yield c
    for i, op in enumerate(ops):
        if "cfg" in op:
            from .. import shrink
            for cfg in shrink.cfg_candidates(op["cfg"]):
                c = dict(spec)
                c["ops"] = copy.deepcopy(ops)
                c["ops"][i]["cfg"] = cfg
                yield c
            for k in ("init_state", "init_log"):
                if k in op["cfg"]:
                    c = dict(spec)
                    c["ops"] = copy.deepcopy(ops)
                    c["ops"][i]["cfg"].pop(k)
                    yield c


def shadow_entry(snap, working):
    return {"snap": snap, "working": working}


def compare(res, ix, p, shadow, opname, opi):
    n = len(shadow)
    lens = D.log_lengths(ix)
    bad = {k: v for k, v in lens.items() if v != n}
    if bad:
        kinds = sorted(set("%s.%s" % (k[0], k[2]) for k in bad))
        res.add("length", "C08.length.after_%s.%s" % (opname, "+".join(kinds)[:100]),
                "after op %d (%s): %d steps were recorded since the last log reset but %s" % (
                    opi, opname, n, {"%s %s %s" % k: v for k, v in list(bad.items())[:5]}), None)
        return False
    if p.time != n:
        res.add("time", "C08.time.after_%s" % opname, "after op %d (%s): all logs have %d entries but project.time=%r" % (opi, opname, n, p.time), None)
    for i, e in enumerate(shadow):
        sn, working = e["snap"], e["working"]
        res.count("entries_compared")
        for t in ix.tasks:
            v = sn["T"].get(t.ID)
            if v is None:
                continue
            exp = C.display_task(v[0], working)
            if int(t.state_record_list[i]) != exp:
                res.add("entry", "C08.entry.task.state_record_list.after_%s" % opname, "after op %d (%s): task %s state log[%d]=%d, live value at that step was %d (%s step)"
                        % (opi, opname, t.ID, i, int(t.state_record_list[i]), v[0], "working" if working else "absence"), i)
            if t.remaining_work_amount_record_list[i] != v[1]:
                res.add("entry", "C08.entry.task.remaining_work_amount_record_list.after_%s" % opname, "after op %d (%s): task %s remaining log[%d]=%r, live %r"
                        % (opi, opname, t.ID, i, t.remaining_work_amount_record_list[i], v[1]), i)
            if list(t.allocated_worker_id_record[i] or []) != list(v[2]):
                res.add("entry", "C08.entry.task.allocated_worker_id_record.after_%s" % opname, "after op %d (%s): task %s worker log[%d]=%r, live %r"
                        % (opi, opname, t.ID, i, t.allocated_worker_id_record[i], list(v[2])), i)
            if list(t.allocated_facility_id_record[i] or []) != list(v[3]):
                res.add("entry", "C08.entry.task.allocated_facility_id_record.after_%s" % opname, "after op %d (%s): task %s facility log[%d]=%r, live %r"
                        % (opi, opname, t.ID, i, t.allocated_facility_id_record[i], list(v[3])), i)
        for c in ix.comps:
            v = sn["C"].get(c.ID)
            if v is None:
                continue
            if int(c.state_record_list[i]) != C.display_task(v[0], working):
                res.add("entry", "C08.entry.component.state_record_list.after_%s" % opname, "after op %d (%s): component %s state log[%d]=%d, live %d"
                        % (opi, opname, c.ID, i, int(c.state_record_list[i]), v[0]), i)
            if c.placed_workplace_id_record[i] != v[1]:
                res.add("entry", "C08.entry.component.placed_workplace_id_record.after_%s" % opname, "after op %d (%s): component %s placement log[%d]=%r, live %r"
                        % (opi, opname, c.ID, i, c.placed_workplace_id_record[i], v[1]), i)
        for kind, objs, key in (("worker", ix.workers, "W"), ("facility", ix.facs, "F")):
            for r in objs:
                v = sn[key].get(r.ID)
                if v is None:
                    continue
                exp = v[0] if working else D.ABSENCE
                if int(r.state_record_list[i]) != exp:
                    res.add("entry", "C08.entry.%s.state_record_list.after_%s" % (kind, opname), "after op %d (%s): %s %s state log[%d]=%d, live %d (%s step)"
                            % (opi, opname, kind, r.ID, i, int(r.state_record_list[i]), v[0], "working" if working else "absence"), i)
                if list(r.assigned_task_id_record[i] or []) != list(v[1]):
                    res.add("entry", "C08.entry.%s.assigned_task_id_record.after_%s" % (kind, opname), "after op %d (%s): %s %s assignment log[%d]=%r, live %r"
                            % (opi, opname, kind, r.ID, i, r.assigned_task_id_record[i], list(v[1])), i)
        for wp in ix.wps:
            v = sn["P"].get(wp.ID)
            if v is not None and list(wp.placed_component_id_record[i] or []) != list(v):
                res.add("entry", "C08.entry.workplace.placed_component_id_record.after_%s" % opname, "after op %d (%s): workplace %s content log[%d]=%r, live %r"
                        % (opi, opname, wp.ID, i, wp.placed_component_id_record[i], list(v)), i)
    return True


def run(spec):
    scen.setup_run(spec.get("seed", 0))
    res = C.campaign.Result()
    res.count("runs")
    b = B.build(spec["model"], spec.get("ranks"))
    p = b.project
    seams.attach(p)
    ix = D.index(p)
    shadow = []
    abs_fresh = False
    productive = 0
    last_cfg = spec["cfg"]
    ops = [{"op": "sim", "cfg": spec["cfg"]}] + list(spec.get("ops", []))
    for opi, op in enumerate(ops):
        kind = op["op"]
        rec = None
        if kind == "sim":
            cfg = op["cfg"]
            res.count("op_sim")
            if not cfg.get("init_log", True):
                res.count("op_sim_keep_log")
            if not cfg.get("init_state", True):
                res.count("op_sim_keep_state")
            if cfg.get("init_log", True):
                shadow = []
            rec, out = scen.simulate(p, cfg, snap_phases=("recorded",))
            last_cfg = cfg
        elif kind == "resume":
            res.count("op_resume")
            cfg = dict(last_cfg)
            cfg["max_time"] = op["max_time"]
            cfg["init_state"] = False
            cfg["init_log"] = False
            rec, out = scen.simulate(p, cfg, snap_phases=("recorded",))
        elif kind == "initialize":
            res.count("op_initialize")
            out = D.call(lambda: p.initialize(state_info=op["state"], log_info=op["log"]))
            if op["log"]:
                shadow = []
        elif kind == "backward":
            res.count("op_backward")
            cfg = op["cfg"]
            if cfg.get("init_log", True):
                shadow = []
            rec, out = scen.simulate(p, cfg, snap_phases=("recorded",), backward={"due": op["due"], "reverse": op["reverse"]})
        elif kind == "reload":
            res.count("op_reload")
            new, ow, orr = scen.save_load(p, "mem:c08.json", spec.get("ranks"))
            out = ow if new is None and not ow.ok else (orr if new is None else ow)
            if new is not None:
                p = new
                ix = D.index(p)
        elif kind == "reverse_log":
            res.count("op_reverse_log")
            out = D.call(lambda: p.reverse_log_information())
            shadow.reverse()
        if rec is not None:
            added = 0
            absn = set(cfg.get("absence", []))
            for s in rec.steps:
                sn = s.ph.get("recorded")
                if sn is not None:
                    # a step is a working step iff its time is not in the absence list given to this call
                    # (decided by the Director from the inputs, not taken from what pDESy passes to record())
                    is_working = s.t not in absn
                    shadow.append(shadow_entry(sn, is_working))
                    added += 1
                    if not is_working:
                        res.count("absence_step_logged")
            res.steps += added
            if added:
                productive += 1
            if int(p.status) == -1:
                res.count("time_limit_hit")
            if kind == "backward" and op["reverse"] and out.ok:
                shadow.reverse()
        if not out.ok:
            res.count("sut_exception")
            break
        if not compare(res, ix, p, shadow, kind, opi):
            break
        if kind in ("sim", "backward") and cfg.get("init_log", True):
            abs_fresh = True
        elif kind != "reverse_log":
            abs_fresh = False
        if abs_fresh and out.ok:
            # the project's registered absence steps (within the run) are the log indices of the non-working steps
            want_abs = sorted(i_ for i_, e_ in enumerate(shadow) if not e_["working"])
            got_abs = sorted(set(a_ for a_ in p.absence_time_list if 0 <= a_ < len(shadow)))
            res.count("registered_absence_steps_checked")
            if got_abs != want_abs:
                res.add("entry", "C08.absence_time_list_vs_logged_absence_steps.after_%s" % kind,
                        "after op %d (%s): project.absence_time_list names %s within the run, the steps recorded as absence steps are %s"
                        % (opi, kind, got_abs, want_abs), None)
        # the cost logs of step k at the six levels describe the same step
        for i in range(len(p.cost_list)):
            tsum = sum(w.cost_list[i] for w in ix.workers) + sum(f.cost_list[i] for f in ix.facs)
            gsum = sum(g.cost_list[i] for g in ix.teams) + sum(g.cost_list[i] for g in ix.wps)
            vals = (p.cost_list[i], p.organization.cost_list[i], gsum, tsum)
            if max(vals) - min(vals) > 1e-9 * max(1.0, abs(max(vals))):
                res.add("entry", "C08.entry.cost_levels_disagree.after_%s" % kind,
                        "after op %d (%s): at log index %d project cost %r, organization %r, teams+workplaces %r, workers+facilities %r"
                        % (opi, kind, i, vals[0], vals[1], vals[2], vals[3]), i)
                break
        if res.violations:
            break
    res.nontrivial = productive >= 2
    res.digest = D.digest(D.dump(p, ix))
    return res
