"""C19 - Gantt data, state queries and dates report exactly what the logs contain."""
import datetime

from .. import build as B
from .. import director as D
from .. import gen as G, scen, seams
from . import common as C

ID = "C19"
LEVEL = "exploration"
DESIGN_REF = "DESIGN.md section 5 (C19) and section 10 (restricted domain)"
TECHNIQUE = "deterministic simulation: the reporting functions are evaluated on the logs produced by seeded operation/fault histories (absence flips, time-limit tails, reversed and edited logs) and compared with an independent run-length encoder / brute-force filter"
RULE = ("logs are produced by seeded histories (forward run with project/individual absences, cut off by a time limit, backward run with "
        "and without log reversal, insert/remove of absence steps); for finish margins 1.0/0.0/0.5 get_time_list_for_gannt_chart of "
        "every task, component, worker and facility must equal an independent run-length encoding, create_data_for_gantt_plotly rows "
        "must map index k to init_datetime + k*unit_timedelta, extract_*_list for seeded time lists (incl. out-of-range) must equal a "
        "brute-force filter, set_last_datetime must put step time-1 on the given date. ONLY state sequences some operation/fault "
        "history can produce are covered. Non-trivial = some log contains >=3 runs of states; distinct = scenario digests")
ASSUMPTIONS = ["restricted domain: state sequences that no simulation history produces are not generated (DESIGN section 10)",
               "models <= 8 tasks"]
LEVEL_TEXT = ("Seeded exploration restricted to reachable logs: the reporting functions are pure functions of a log; feeding them hand-made "
              "sequences would be input generation, not simulation, and is not done.")
LEVEL_NOTE = "Trusted: the independent run-length encoder and brute-force filters in this module; reachable sequences only."
PROBES = ["logs_encoded", "log_with_absence_flip", "log_suspended_tail", "log_reversed", "log_edited", "log_absence_removed", "extract_queries",
          "extract_out_of_range", "log_appended_from_json", "extract_repeated_time", "asked_again_after_in_place_edit", "plotly_rows_checked", "last_datetime_checked", "resource_absence_run", "log_of_a_late_worker"]

MARGINS = (1.0, 0.0, 0.5)


def budget(tier):
    return 4000 if tier == "quick" else 1500000


def gen(rng, tier):
    focus = {"proj_abs": rng.random() < 0.6, "res_abs": rng.random() < 0.5}
    if rng.random() < 0.4:
        focus.update(comps=True, facilities=True)
    spec = C.forward_spec(rng, tier, focus, max_time=rng.choice([5, 12, 25, 40]))
    spec["variant"] = G.wchoice(rng, [("forward", 4), ("backward", 2), ("edited", 2), ("removed", 2), ("appended", 1.5), ("late_worker", 1)])
    spec["k"] = rng.randint(1, 8)
    spec["reverse"] = rng.random() < 0.5
    spec["edit"] = sorted(set(rng.randint(0, 8) for _ in range(rng.randint(1, 3))))
    spec["times"] = [sorted(set(rng.randint(0, 14) for _ in range(rng.randint(1, 3)))) for _ in range(3)]
    if rng.random() < 0.3:
        spec["times"].append([rng.randint(30, 90)])
    if rng.random() < 0.4:
        t_ = rng.randint(0, 10)
        spec["times"].append(rng.choice([[t_, t_], [t_ + 1, t_, t_ + 1], [t_, t_, t_ + 2]]))  # a time asked for twice, unsorted
    if rng.random() < 0.3:
        k_ = rng.randint(0, 8)
        spec["ask_again"] = rng.choice([[["remove"], ["insert", [k_]]], [["insert", [k_]]], [["insert", [k_, k_ + 2]], ["remove"], ["insert", [k_ + 1]]]])
    spec["unit_s"] = rng.choice([60, 1, 3600, 86400, 90])
    spec["last_us"] = rng.choice([0, 0, 250000, 1, 999999])
    spec["last"] = [2020 + rng.randint(0, 5), rng.randint(1, 12), rng.randint(1, 28), rng.randint(0, 23), rng.randint(0, 59)]
    return spec


def extra_candidates(spec):
    if spec.get("ask_again"):
        c = dict(spec)
        c.pop("ask_again")
        yield c
    if spec.get("variant") != "forward":
        c = dict(spec)
        c["variant"] = "forward"
        yield c


def runs_of(seq, state):
    out = []
    i = 0
    n = len(seq)
    while i < n:
        if seq[i] == state:
            j = i
            while j + 1 < n and seq[j + 1] == state:
                j += 1
            out.append((i, j))
            i = j + 1
        else:
            i += 1
    return out


def expect(seq, state, margin):
    return [(a, (b - a) + margin) for (a, b) in runs_of(seq, state)]


def n_runs(seq):
    return sum(1 for i in range(len(seq)) if i == 0 or seq[i] != seq[i - 1])


def fmt(dt):
    return dt.strftime("%Y-%m-%d %H:%M:%S")


def check_object(res, kind, obj, seq, names_states, init, unit, tag):
    for margin in MARGINS:
        o = D.call(lambda: obj.get_time_list_for_gannt_chart(finish_margin=margin))
        if not o.ok:
            res.add("gantt", "C19.gantt_raises.%s.%s" % (kind, o.exc_type), "get_time_list_for_gannt_chart of %s %s raised %s on log %s" % (kind, obj.ID, o.msg, seq), None)
            return
        got = o.value
        res.count("logs_encoded")
        for idx, (nm, stv) in enumerate(names_states):
            exp = expect(seq, stv, margin)
            g = [tuple(x) for x in got[idx]]
            if g != exp:
                res.add("gantt", "C19.gantt_intervals.%s.%s%s" % (kind, nm, tag),
                        "%s %s, margin %r: %s intervals %s, the maximal runs in the log %s are %s" % (kind, obj.ID, margin, nm, g, seq, exp), None)
                return


def run(spec):
    scen.setup_run(spec.get("seed", 0))
    res = C.campaign.Result()
    res.count("runs")
    model = dict(spec["model"])
    model["unit_s"] = spec.get("unit_s", 60)
    b = B.build(model, spec.get("ranks"))
    p = b.project
    variant = spec.get("variant", "forward")
    tag = ""
    if variant == "backward":
        rec, out = scen.simulate(p, spec["cfg"], want_snap=False, backward={"due": False, "reverse": spec.get("reverse", True)})
        res.count("log_reversed")
    elif variant == "appended":
        # two phases saved separately and stitched together by the library: read_simple_json(phase 1) +
        # append_project_log_from_simple_json(phase 2); the stitched logs are what the reports are asked about
        rec, out = scen.simulate(p, dict(spec["cfg"], max_time=spec.get("k", 3)), want_snap=False)
        ok = out.ok and D.call(lambda: p.write_simple_json("mem:c19a.json")).ok
        if ok:
            rec, out = scen.simulate(p, dict(spec["cfg"], init_state=False, init_log=True), want_snap=False)
            ok = out.ok and D.call(lambda: p.write_simple_json("mem:c19b.json")).ok
        if ok:
            from .. import env
            q = env.M.bp.BaseProject()
            o1 = D.call(lambda: q.read_simple_json("mem:c19a.json"))
            o2 = D.call(lambda: q.append_project_log_from_simple_json("mem:c19b.json")) if o1.ok else o1
            if o1.ok and o2.ok:
                p = q
                res.count("log_appended_from_json")
            else:
                res.count("append_not_possible")
    elif variant == "late_worker":
        # the run is cut off, a team gets one more worker (team.add_worker), and the run goes on with state and logs kept: the
        # newcomer's log starts later than everybody else's, and every report is a function of each object's own log
        from .. import env
        rec, out = scen.simulate(p, dict(spec["cfg"], max_time=spec.get("k", 3)), want_snap=False)
        tms_ = [tm for tm in p.organization.team_list if tm.worker_list]
        if out.ok and tms_:
            tm_ = tms_[spec.get("k", 3) % len(tms_)]
            old_ = tm_.worker_list[0]
            new_ = env.M.bw.BaseWorker("late", ID="wlate", cost_per_time=1.0, workamount_skill_mean_map=dict(old_.workamount_skill_mean_map),
                                       facility_skill_map=dict(old_.facility_skill_map))
            D.call(lambda: tm_.add_worker(new_))
            rec, out = scen.simulate(p, dict(spec["cfg"], init_state=False, init_log=False), want_snap=False)
            res.count("log_of_a_late_worker")
    else:
        rec, out = scen.simulate(p, spec["cfg"], want_snap=False)
        if variant == "edited" and out.ok:
            D.call(lambda: p.insert_absence_time_list(list(spec.get("edit", []))))
            res.count("log_edited")
        if variant == "removed" and out.ok:
            D.call(lambda: p.remove_absence_time_list())
            res.count("log_absence_removed")
    res.steps = rec.n_recorded
    if not out.ok:
        res.count("sut_exception")
        res.digest = "exc"
        return res
    if int(p.status) == -1:
        res.count("log_suspended_tail")
    nt = [False]

    def report(tag):
        ix = D.index(p)
        init, unit = p.init_datetime, p.unit_timedelta
        T = [("ready", D.READY), ("working", D.WORKING)]
        R = [("ready", D.FREE), ("working", D.R_WORKING), ("absence", D.ABSENCE)]
        for kind, objs, ns in (("task", ix.tasks, T), ("component", ix.comps, T), ("worker", ix.workers, R), ("facility", ix.facs, R)):
            for o_ in objs:
                seq = [int(s) for s in o_.state_record_list]
                if n_runs(seq) >= 3:
                    nt[0] = True
                if kind in ("task", "component") and any(seq[i] == D.WORKING and seq[i + 1] == D.READY for i in range(len(seq) - 1)):
                    res.count("log_with_absence_flip")
                if kind in ("worker", "facility") and D.ABSENCE in seq:
                    res.count("resource_absence_run")
                check_object(res, kind, o_, seq, ns, init, unit, tag)
        # plotly rows: index k -> init + k*unit
        for margin in (1.0, 0.5, 0.0):
            for kind, objs in (("task", ix.tasks), ("component", ix.comps)):
                for o_ in objs:
                    seq = [int(s) for s in o_.state_record_list]
                    oc = D.call(lambda: o_.create_data_for_gantt_plotly(init, unit, finish_margin=margin, view_ready=True))
                    if not oc.ok:
                        res.add("plotly", "C19.plotly_raises.%s" % kind, "create_data_for_gantt_plotly of %s %s raised %s" % (kind, o_.ID, oc.msg), None)
                        continue
                    rows = sorted((r["Start"], r["Finish"], r["State"]) for r in oc.value)
                    exp = []
                    for nm, stv in (("READY", D.READY), ("WORKING", D.WORKING)):
                        for (a, ln) in expect(seq, stv, margin):
                            exp.append((fmt(init + a * unit), fmt(init + (a + ln) * unit), nm))
                    res.count("plotly_rows_checked")
                    if rows != sorted(exp):
                        res.add("plotly", "C19.plotly_rows.%s" % kind, "%s %s margin %r: chart rows %s, expected %s for log %s" % (kind, o_.ID, margin, rows, sorted(exp), seq), None)
            for gkind, groups, members in (("team", ix.teams, "worker_list"), ("workplace", ix.wps, "facility_list")):
                for g in groups:
                    oc = D.call(lambda: g.create_data_for_gantt_plotly(init, unit, finish_margin=margin, view_ready=True, view_absence=True))
                    if not oc.ok:
                        res.add("plotly", "C19.plotly_raises.%s" % gkind, "create_data_for_gantt_plotly of %s %s raised %s" % (gkind, g.ID, oc.msg), None)
                        continue
                    rows = sorted((r["Task"], r["Start"], r["Finish"], r["State"]) for r in oc.value)
                    exp = []
                    for r_ in getattr(g, members):
                        seq = [int(s) for s in r_.state_record_list]
                        for nm, stv in (("READY", D.FREE), ("ABSENCE", D.ABSENCE), ("WORKING", D.R_WORKING)):
                            for (a, ln) in expect(seq, stv, margin):
                                exp.append((g.name + ": " + r_.name, fmt(init + a * unit), fmt(init + (a + ln) * unit), nm))
                    res.count("plotly_rows_checked")
                    if rows != sorted(exp):
                        res.add("plotly", "C19.plotly_rows.%s" % gkind, "%s %s margin %r: chart rows %s, expected %s" % (gkind, g.ID, margin, rows[:6], sorted(exp)[:6]), None)
        # the same rows requested through the containers, with every combination of the view flags
        def rows_of(seq, nm_states, label, margin):
            out = []
            for nm, stv in nm_states:
                for (a, ln) in expect(seq, stv, margin):
                    out.append((label, fmt(init + a * unit), fmt(init + (a + ln) * unit), nm))
            return out

        for (vr, va) in ((True, False), (False, True), (False, False), (True, True)):
            margin = 1.0
            oc = D.call(lambda: p.organization.create_data_for_gantt_plotly(init, unit, finish_margin=margin, view_ready=vr, view_absence=va))
            if oc.ok:
                rows = sorted((r["Task"], r["Start"], r["Finish"], r["State"]) for r in oc.value)
                exp = []
                for g, members in [(g, g.worker_list) for g in ix.teams] + [(g, g.facility_list) for g in ix.wps]:
                    for r_ in members:
                        seq = [int(s) for s in r_.state_record_list]
                        kinds = [("WORKING", D.R_WORKING)] + ([("READY", D.FREE)] if vr else []) + ([("ABSENCE", D.ABSENCE)] if va else [])
                        exp.extend(rows_of(seq, kinds, g.name + ": " + r_.name, margin))
                res.count("plotly_rows_checked")
                if rows != sorted(exp):
                    res.add("plotly", "C19.plotly_rows.organization.view_ready_%s.view_absence_%s" % (vr, va),
                            "organization.create_data_for_gantt_plotly(view_ready=%s, view_absence=%s): %d rows, expected %d from the logs; first difference %s"
                            % (vr, va, len(rows), len(exp), next((x for x in sorted(set(rows) ^ set(exp))), None)), None)
            if not va:
                for owner, objs, typ in ((p.workflow, ix.tasks, "Task"), (p.product, ix.comps, "Component")):
                    oc = D.call(lambda: owner.create_data_for_gantt_plotly(init, unit, finish_margin=margin, view_ready=vr))
                    if oc.ok:
                        rows = sorted((r["Task"], r["Start"], r["Finish"], r["State"]) for r in oc.value)
                        exp = []
                        for o_ in objs:
                            seq = [int(s) for s in o_.state_record_list]
                            kinds = [("WORKING", D.WORKING)] + ([("READY", D.READY)] if vr else [])
                            exp.extend(rows_of(seq, kinds, o_.name, margin))
                        res.count("plotly_rows_checked")
                        if rows != sorted(exp):
                            res.add("plotly", "C19.plotly_rows.%s_container.view_ready_%s" % (typ.lower(), vr),
                                    "%s container create_data_for_gantt_plotly(view_ready=%s): rows differ from the logs; first difference %s"
                                    % (typ, vr, next((x for x in sorted(set(rows) ^ set(exp))), None)), None)
        # extract_* queries
        n = len(p.cost_list)
        for times in spec.get("times", []):
            if any(t >= n for t in times):
                res.count("extract_out_of_range")
            if len(set(times)) != len(times):
                res.count("extract_repeated_time")
            for nm, stv in (("none", D.NONE), ("ready", D.READY), ("working", D.WORKING), ("finished", D.FINISHED)):
                for kind, owner, objs, fn in (("task", p.workflow, ix.tasks, "extract_%s_task_list" % nm),
                                              ("component", p.product, ix.comps, "extract_%s_component_list" % nm)):
                    oc = D.call(lambda: getattr(owner, fn)(list(times)))
                    res.count("extract_queries")
                    if not oc.ok:
                        res.add("extract", "C19.extract_raises.%s" % fn, "%s(%s) raised %s" % (fn, times, oc.msg), None)
                        continue
                    got = sorted(x.ID for x in oc.value)
                    exp = sorted(x.ID for x in objs if all(t < len(x.state_record_list) and int(x.state_record_list[t]) == stv for t in times))
                    if got != exp or len(oc.value) != len(set(id(x) for x in oc.value)):
                        res.add("extract", "C19.extract_wrong.%s" % fn, "%s(%s) returned %s, the logs say %s" % (fn, times, got, exp), None)
            for nm, stv in (("free", D.FREE), ("working", D.R_WORKING)):
                for gkind, groups, members, fn in (("team", ix.teams, "worker_list", "extract_%s_worker_list" % nm),
                                                   ("workplace", ix.wps, "facility_list", "extract_%s_facility_list" % nm)):
                    for g in groups:
                        oc = D.call(lambda: getattr(g, fn)(list(times)))
                        res.count("extract_queries")
                        if not oc.ok:
                            res.add("extract", "C19.extract_raises.%s" % fn, "%s(%s) raised %s" % (fn, times, oc.msg), None)
                            continue
                        got = sorted(x.ID for x in oc.value)
                        exp = sorted(x.ID for x in getattr(g, members)
                                     if all(t < len(x.state_record_list) and int(x.state_record_list[t]) == stv for t in times))
                        if got != exp:
                            res.add("extract", "C19.extract_wrong.%s" % fn, "%s(%s) of %s returned %s, the logs say %s" % (fn, times, g.ID, got, exp), None)

    report("")
    if spec.get("ask_again") and len(p.cost_list) > 0:
        # the same questions again after the logs were changed in place (possibly to the same length): the answers are
        # functions of what the logs contain now
        for op in spec["ask_again"]:
            if op[0] == "remove":
                D.call(lambda: p.remove_absence_time_list())
            else:
                D.call(lambda: p.insert_absence_time_list(list(op[1])))
        res.count("asked_again_after_in_place_edit")
        report(".second_request")
    nontrivial = nt[0]
    n = len(p.cost_list)
    ix = D.index(p)
    init, unit = p.init_datetime, p.unit_timedelta
    # set_last_datetime
    y, mo, d_, h, mi = spec.get("last", [2021, 1, 1, 0, 0])
    last = datetime.datetime(y, mo, d_, h, mi, 0, int(spec.get("last_us", 0)))
    if n >= 1:
        oc = D.call(lambda: p.set_last_datetime(last))
        res.count("last_datetime_checked")
        if not oc.ok:
            res.add("last", "C19.set_last_datetime_raises", "set_last_datetime raised %s" % oc.msg, None)
        else:
            # "the last simulated step" is the last entry of the logs (n entries), whatever project.time says
            if p.init_datetime + (n - 1) * p.unit_timedelta != last or oc.value != p.init_datetime:
                res.add("last", "C19.set_last_datetime_wrong", "set_last_datetime(%s) with time=%d unit=%s set init_datetime=%s: last step falls on %s"
                        % (last, p.time, p.unit_timedelta, p.init_datetime, p.init_datetime + (p.time - 1) * p.unit_timedelta), None)
            oc2 = D.call(lambda: p.set_last_datetime(last, unit_timedelta=datetime.timedelta(minutes=7), set_init_datetime=False))
            if oc2.ok and oc2.value + (n - 1) * datetime.timedelta(minutes=7) != last:
                res.add("last", "C19.set_last_datetime_wrong", "set_last_datetime(unit=7min, set_init_datetime=False) returned %s" % oc2.value, None)
    res.nontrivial = nontrivial
    res.digest = D.digest(D.dump(p, ix))
    return res
