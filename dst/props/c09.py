"""C09 - simulation results are reproducible and independent of object identity."""
import hashlib
import itertools
import json
import os
import subprocess
import sys

from .. import build as B
from .. import director as D
from .. import env, gen as G, scen, seams
from . import common as C
from .common import Static

ID = "C09"
LEVEL = "exploration"
DESIGN_REF = "DESIGN.md section 5, C09"
TECHNIQUE = "deterministic simulation: schedule search (the iteration order of every task/component set is chosen by hash ranks) + twin executions (rebuilt at other addresses, fresh interpreter, repeated calls, cross-project histories)"
RULE = ("per seeded model one reference run and, by mode: 'perm' R other rank permutations (all n! for n<=5 in thorough), "
        "'plain' unmodified pDESy classes rebuilt after random garbage allocation (address-based hashes), 'again' simulate() "
        "repeated / A-B-A option sequences on one object, 'history' API histories on several projects in one process incl. "
        "calls relying on default arguments, log edits and backward runs, with a digest of process-global mutable state before/after; "
        "plus a batch re-executed in a fresh interpreter under another PYTHONHASHSEED. Complete dumps (all logs, time, costs, status) "
        "must be identical. Non-trivial = model has a non-FS edge or >=2 tasks competing, and >=2 schedules/executions were compared; "
        "distinct = scenario digests")
ASSUMPTIONS = ["skill standard deviations are 0", "schedules are realised through __hash__ of harness subclasses of BaseTask/BaseComponent; "
               "only tasks and components are ever put into sets by the library (checked by grep)", "models <= 8 tasks"]
LEVEL_TEXT = ("Schedule search: the only real nondeterminism of the library (set iteration order) is put under the control of the "
              "seed and varied; results under different schedules, addresses, interpreters and call histories must be bit-identical.")
LEVEL_NOTE = "Trusted: rank seam realises every order for <= 8 objects; dump covers every public log; sampling of schedules unless n<=5 in thorough."
PROBES = ["mode_perm", "mode_pert", "pert_tables_compared", "mode_plain", "mode_again", "mode_history", "mode_ids", "schedules_compared", "same_step_zero_FF", "same_step_zero_SF",
          "fresh_interpreter_compared", "model_structure_compared", "id_object_twin_compared", "history_default_args_call", "history_insert_absence", "global_state_checked"]


def budget(tier):
    return 3000 if tier == "quick" else 500000


def gen(rng, tier):
    focus = {}
    r = rng.random()
    if r < 0.6:
        focus["kinds"] = [k for k in (0, 1, 2, 3) if rng.random() < 0.65] or [2]
        focus["same_step"] = rng.random() < 0.7
    if rng.random() < 0.3:
        focus["density"] = 0.5
    pert = rng.random() < 0.25
    if pert:
        # PERT times only (cheap): dense mixed-kind graphs under many schedules
        focus["kinds"] = [0, 1, 2, 3] if rng.random() < 0.5 else [0, 0, 2, 2, rng.choice([1, 3])]
        focus["density"] = rng.choice([0.4, 0.5, 0.65])
    spec = C.forward_spec(rng, tier, focus)
    mode = G.wchoice(rng, [("perm", 6), ("plain", 1.5), ("again", 1.5), ("history", 1.5), ("ids", 1.2)])
    if pert:
        spec["mode"] = "pert"
        m_ = spec["model"]
        n_ = len(m_["tasks"])
        if rng.random() < 0.6:
            for t_ in m_["tasks"]:
                t_["work"] = float(rng.choice([1, 1, 2, 3, 5, 8, 10]))
        if n_ >= 4 and rng.random() < 0.6:
            # a finish-to-start backbone with side inputs and side outputs of any kind joining it at different depths
            order = list(range(n_))
            rng.shuffle(order)
            nb = rng.randint(3, max(3, n_ - 1))
            back, side = sorted(order[:nb]), order[nb:]
            deps = [[back[i], back[i + 1], 0 if rng.random() < 0.85 else rng.choice([1, 2, 3])] for i in range(nb - 1)]
            for s_ in side:
                inp = rng.random() < 0.6  # a side input of the backbone (else a side output): no cycle either way
                if rng.random() < 0.6:
                    m_["tasks"][s_]["work"] = float(rng.choice([5, 8, 10, 13]))
                for o_ in set(rng.choice(back[1:] if inp else back[:-1]) for _ in range(rng.randint(1, 2))):
                    deps.append([s_, o_, rng.choice([0, 1, 2, 2, 2, 3])] if inp else [o_, s_, rng.choice([0, 1, 2, 3])])
            m_["deps"] = deps
        spec["perms"] = [G.gen_ranks(rng, spec["model"], "perm") for _ in range(24)]
        return spec
    if mode == "ids" and (spec["profile"].get("same_ids") or spec["profile"].get("prefix_ids")):
        mode = "perm"
    spec["mode"] = mode
    if rng.random() < 0.1 and not spec["model"].get("comp_ctor_tasks"):
        spec["copies_twin"] = True
    n = len(spec["model"]["tasks"])
    if mode == "perm":
        if tier == "thorough" and n <= 5 and rng.random() < 0.5:
            spec["perms"] = "all"
        else:
            k = 5 if tier == "quick" else 8
            spec["perms"] = [G.gen_ranks(rng, spec["model"], "perm" if rng.random() < 0.85 else "wide") for _ in range(k)]
    elif mode == "ids":
        spec["id_seeds"] = [rng.randint(1, 1 << 30) for _ in range(3)]
    elif mode == "plain":
        spec["garbage"] = [rng.randint(1, 4000) for _ in range(rng.randint(1, 4))]
    elif mode == "again":
        p = spec["profile"]
        if rng.random() < 0.25 and not spec["model"].get("reg_order"):
            # an organisation without a single team (automatic work only); workplaces, if any, stay
            for t_ in spec["model"]["tasks"]:
                t_["auto"] = True
                t_.setdefault("rate", 1.0)
                t_.pop("fixw", None)
            spec["model"]["teams"] = []
        spec["cfgB"] = G.gen_cfg(rng, p)
        spec["pre_again"] = rng.choice([None, "initialize", "pert0", "sim0", "workflow_initialize"])
    else:
        p = spec["profile"]
        spec["model2"] = G.gen_model(rng, G.gen_profile(rng))
        spec["cfg2"] = G.gen_cfg(rng, p)
        ops = []
        for _ in range(rng.randint(2, 6)):
            ops.append(rng.choice([
                {"op": "sim_defaults", "p": rng.randint(0, 1)},
                {"op": "sim", "p": rng.randint(0, 1)},
                {"op": "insert", "p": rng.randint(0, 1), "steps": sorted(set(rng.randint(1, 6) for _ in range(rng.randint(1, 3))))},
                {"op": "remove", "p": rng.randint(0, 1)},
                {"op": "backward", "p": rng.randint(0, 1), "due": rng.random() < 0.5, "reverse": rng.random() < 0.5},
                {"op": "backward_defaults", "p": rng.randint(0, 1)},
                {"op": "refused_call", "p": rng.randint(0, 1), "backward": rng.random() < 0.6},
                {"op": "getters", "p": rng.randint(0, 1)},
                {"op": "charts", "p": rng.randint(0, 1), "auto": rng.random() < 0.6},
            ]))
        spec["ops"] = ops
    return spec


def globals_digest():
    """Digest of process-global mutable state of pDESy that a simulation could leave behind."""
    M = env.M
    items = []
    for fn in (M.bp.BaseProject.simulate, M.bp.BaseProject.backward_simulate, M.bp.BaseProject.__init__,
               M.bt.BaseTask.__init__, M.bw.BaseWorker.__init__, M.bf.BaseFacility.__init__,
               M.bc.BaseComponent.__init__, M.btm.BaseTeam.__init__, M.bwp.BaseWorkplace.__init__):
        items.append((fn.__qualname__, repr(fn.__defaults__)))
    for m in M.modules:
        for k, v in sorted(vars(m).items()):
            if k.startswith("__"):
                continue
            if isinstance(v, (list, dict, set)):
                items.append((m.__name__ + "." + k, repr(v)))
    return hashlib.sha256(repr(items).encode()).hexdigest()[:16]


def reset_globals_old():
    """Restore the mutable default arguments a previous scenario may have polluted (isolation between runs)."""
    M = env.M
    for fn in (M.bp.BaseProject.simulate, M.bp.BaseProject.backward_simulate):
        d = fn.__defaults__
        if d and any(isinstance(x, list) and x for x in d):
            fn.__defaults__ = tuple([] if isinstance(x, list) else x for x in d)


def edge_tags(model):
    ks = sorted(set(G.KIND_NAME[k] for (_, _, k) in model["deps"]))
    return "+".join(ks) if ks else "nodep"


def canon(obj, mapping):
    """Rename IDs (dict keys and string values) according to mapping."""
    if isinstance(obj, dict):
        return {mapping.get(k, k): canon(v, mapping) for k, v in obj.items()}
    if isinstance(obj, list):
        return [canon(v, mapping) for v in obj]
    if isinstance(obj, str):
        return mapping.get(obj, obj)
    return obj


def one_run(spec, ranks, cfg=None, plain=False):
    scen.setup_run(spec.get("seed", 0))
    if plain:
        b = B.build(spec["model"], None, plain=True)
        rec, out = scen.simulate(b.project, cfg or spec["cfg"], want_snap=False)
        tr = scen.Trace()
        tr.project, tr.rec, tr.out, tr.ix = b.project, rec, out, rec.ix
        tr.built = b
        return tr
    return scen.run_forward(spec["model"], ranks, cfg or spec["cfg"], want_snap=False)


def pert_table(spec, ranks):
    """The PERT times (est, eft, lst, lft) of every task of a freshly built and initialised model: a pure function of the model."""
    b = B.build(spec["model"], ranks)
    out = D.call(lambda: (b.project.initialize(), b.project.workflow.update_PERT_data(0)))
    tab = {t.ID: [t.est, t.eft, t.lst, t.lft] for t in b.tasks}
    tab["_outcome"] = [out.ok, out.exc_type]
    return tab


def outcome_dump(tr):
    d = D.dump(tr.project)
    d["_outcome"] = [tr.out.ok, tr.out.exc_type, tr.out.where]
    return d


def run(spec):
    env.setup()
    seams.install()
    seams.reset_global_defaults()
    res = C.campaign.Result()
    res.count("runs")
    mode = spec.get("mode", "perm")
    res.count("mode_" + mode)
    m = spec["model"]
    tags = edge_tags(m)
    ref = one_run(spec, spec.get("ranks"))
    res.steps = ref.rec.n_recorded
    # a run leaves no hidden state behind: the model itself (every user-built list in its order, every map, every setting)
    # is after the run what a fresh build of the same model is
    fresh = B.build(m, spec.get("ranks"))
    s_fresh = D.structure_dump(fresh.project)

    def model_intact(project, when):
        diff_ = D.first_diff(s_fresh, D.structure_dump(project))
        res.count("model_structure_compared")
        if diff_ is not None:
            attr = [x for x in diff_[0].strip("/").split("/") if not x.startswith("[")]
            res.add("model", "C09.run_changed_the_model.%s" % ".".join(a_.split("[")[0] for a_ in (attr[0:1] + attr[2:3])),
                    "%s the model differs from a fresh build of the same model at %s: %r vs %r" % (when, diff_[0], diff_[1], diff_[2]), None)

    if ref.out.ok:
        model_intact(ref.project, "after simulate()")
    dref = outcome_dump(ref)
    res.digest = D.digest(dref)
    compared = 0
    if ref.out.ok and any(w.get("mainwp") for tm in m["teams"] for w in tm["workers"]):
        # ID strings that are the same object (main_workplace_id=wp.ID) vs equal copies (IDs read from a file): same result
        scen.setup_run(spec.get("seed", 0))
        b2 = B.build(m, spec.get("ranks"), share_id_objects=True)
        rec2, out2 = scen.simulate(b2.project, spec["cfg"], want_snap=False)
        d2 = D.dump(b2.project)
        d2["_outcome"] = [out2.ok, out2.exc_type, out2.where]
        res.count("id_object_twin_compared")
        diff = D.first_diff(dref, d2)
        if diff is not None:
            res.add("address", "C09.depends_on_id_string_identity",
                    "the same model with main_workplace_id being the workplace's ID object vs an equal copy of it differs at %s: %r vs %r" % diff, None)
    if ref.out.ok and spec.get("copies_twin"):
        # the same model with workers and components made as shallow copies of one template object (every setting then given
        # per copy) instead of by constructor calls: same result
        scen.setup_run(spec.get("seed", 0))
        b3 = B.build(dict(m, worker_copies="share_all", comp_copies=True), spec.get("ranks"))
        rec3, out3 = scen.simulate(b3.project, spec["cfg"], want_snap=False)
        d3 = D.dump(b3.project)
        d3["_outcome"] = [out3.ok, out3.exc_type, out3.where]
        res.count("copied_objects_twin_compared")
        diff = D.first_diff(dref, d3)
        if diff is not None:
            res.add("address", "C09.depends_on_how_objects_were_made",
                    "the same model with workers/components made by copy.copy of a template (settings assigned afterwards) vs by constructor "
                    "calls differs at %s: %r vs %r" % diff, None)
    if mode == "perm":
        perms = spec.get("perms")
        if perms == "all":
            ids_t = [t["id"] for t in m["tasks"]]
            ids_c = [c["id"] for c in m.get("comps", [])]
            perms = []
            for pt in itertools.permutations(range(len(ids_t))):
                r = dict(zip(ids_t, pt))
                for i, c in enumerate(ids_c):
                    r[c] = i
                perms.append(r)
            for pc in itertools.permutations(range(len(ids_c))):
                r = {t: i for i, t in enumerate(ids_t)}
                r.update(dict(zip(ids_c, pc)))
                perms.append(r)
            res.count("exhaustive_schedule_sets")
        pert_ref = pert_table(spec, spec.get("ranks"))
        for r in perms:
            pdiff = D.first_diff(pert_ref, pert_table(spec, r))
            res.count("pert_tables_compared")
            if pdiff is not None:
                res.add("schedule", "C09.pert_times_schedule_dependent.kinds_" + tags,
                        "same model, two set-iteration schedules %s vs %s: the PERT times after initialize() and update_PERT_data(0) differ at %s: "
                        "%r vs %r" % (spec.get("ranks"), r, pdiff[0], pdiff[1], pdiff[2]), None)
                break
            tr = one_run(spec, r)
            compared += 1
            d = outcome_dump(tr)
            diff = D.first_diff(dref, d)
            if diff is not None:
                attrs = D.diff_attrs(dref, d)
                res.add("schedule", "C09.schedule_dependent.kinds_" + tags,
                        "same model, two set-iteration schedules %s vs %s: results differ in %s; first at %s: %r vs %r"
                        % (spec.get("ranks"), r, sorted(attrs)[:6], diff[0], diff[1], diff[2]), None)
                break
        res.count("schedules_compared", compared)
    elif mode == "pert":
        pert_ref = pert_table(spec, spec.get("ranks"))
        for r in spec.get("perms", []):
            pdiff = D.first_diff(pert_ref, pert_table(spec, r))
            res.count("pert_tables_compared")
            if pdiff is not None:
                res.add("schedule", "C09.pert_times_schedule_dependent.kinds_" + tags,
                        "same model, two set-iteration schedules %s vs %s: the PERT times after initialize() and update_PERT_data(0) differ at %s: "
                        "%r vs %r" % (spec.get("ranks"), r, pdiff[0], pdiff[1], pdiff[2]), None)
                break
    elif mode == "ids":
        # workers and facilities get the library's default IDs (uuid4).  Two builds draw different IDs; after renaming the
        # IDs by position the results must be identical (a result must not depend on what the random IDs happen to be)
        dumps = []
        for sd in spec.get("id_seeds", [1, 2]):
            scen.setup_run(spec.get("seed", 0))
            seams.UUID.reset(random_seed=sd)
            b = B.build(m, spec.get("ranks"), default_resource_ids=True)
            rec, out = scen.simulate(b.project, spec["cfg"], want_snap=False)
            mapping = {}
            for w, wid in zip(b.workers, [w_["id"] for tm in m["teams"] for w_ in tm["workers"]]):
                mapping[w.ID] = wid
            for f, fid in zip(b.facs, [f_["id"] for wp in m["wps"] for f_ in wp["facs"]]):
                mapping[f.ID] = fid
            d = canon(D.dump(b.project), mapping)
            d["_outcome"] = [out.ok, out.exc_type, out.where]
            dumps.append(d)
            compared += 1
        seams.UUID.reset()
        for d in dumps:
            diff = D.first_diff(dref, d)
            if diff is not None:
                res.add("ids", "C09.depends_on_default_ids", "the same model built with default (uuid4) worker/facility IDs gives a result that "
                        "differs from the run with explicit IDs after renaming IDs by position, at %s: %r vs %r" % diff, None)
                break
    elif mode == "plain":
        junk = [bytearray(n) for n in spec.get("garbage", [])]
        tr = one_run(spec, None, plain=True)
        compared += 1
        d = outcome_dump(tr)
        diff = D.first_diff(dref, d)
        if diff is not None:
            res.add("address", "C09.address_dependent.kinds_" + tags,
                    "ranked run vs unmodified classes rebuilt at other addresses differ at %s: %r vs %r" % diff, None)
        del junk
        # ID strings that are the same object (main_workplace_id=wp.ID) vs equal copies (IDs read from a file): same result
        scen.setup_run(spec.get("seed", 0))
        b2 = B.build(m, spec.get("ranks"), share_id_objects=True)
        rec2, out2 = scen.simulate(b2.project, spec["cfg"], want_snap=False)
        d2 = D.dump(b2.project)
        d2["_outcome"] = [out2.ok, out2.exc_type, out2.where]
        compared += 1
        diff = D.first_diff(dref, d2)
        if diff is not None:
            res.add("address", "C09.depends_on_id_string_identity",
                    "the same model with main_workplace_id being the workplace's ID object vs an equal copy of it differs at %s: %r vs %r" % diff, None)
    elif mode == "again":
        p = ref.project
        pre = spec.get("pre_again")
        if pre is not None:
            # calls a user may make between two runs; none of them may change what the next simulate() gives
            res.count("again_after_" + pre)
            if pre == "initialize":
                D.call(lambda: p.initialize())
            elif pre == "workflow_initialize":
                D.call(lambda: p.workflow.initialize())
            elif pre == "pert0":
                D.call(lambda: p.workflow.update_PERT_data(0))
            elif pre == "sim0":
                scen.simulate(p, dict(spec["cfg"], max_time=0), want_snap=False)
        # call simulate() again on the already simulated object
        rec, out = scen.simulate(p, spec["cfg"], want_snap=False)
        d2 = D.dump(p)
        d2["_outcome"] = [out.ok, out.exc_type, out.where]
        compared += 1
        diff = D.first_diff(dref, d2)
        if diff is not None:
            res.add("again", "C09.second_simulate_differs", "simulate() called again on the same object differs at %s: %r vs %r" % diff, None)
        # A - B - A
        rec, out = scen.simulate(p, spec["cfgB"], want_snap=False)
        rec, out = scen.simulate(p, spec["cfg"], want_snap=False)
        d3 = D.dump(p)
        d3["_outcome"] = [out.ok, out.exc_type, out.where]
        compared += 1
        diff = D.first_diff(dref, d3)
        if diff is not None:
            res.add("again", "C09.A_B_A_differs", "simulate(A); simulate(B); simulate(A) differs from the first simulate(A) at %s: %r vs %r" % diff, None)
    else:
        compared += run_history(spec, res, dref, model_intact)
    for (a, b, k) in m["deps"]:
        if k in (G.FF, G.SF) and m["tasks"][a]["work"] == m["tasks"][b]["work"]:
            res.count("same_step_zero_" + G.KIND_NAME[k])
    res.nontrivial = compared >= 1 and (any(k != 0 for (_, _, k) in m["deps"]) or len(m["tasks"]) >= 2)
    seams.reset_global_defaults()
    return res


def run_history(spec, res, dref, intact=None):
    """API history on two projects in one process; afterwards a plain simulate of project 0 with the
    reference configuration must equal the reference, and process-global state must be unchanged."""
    g0 = globals_digest()
    res.count("global_state_checked")
    scen.setup_run(spec.get("seed", 0))
    b0 = B.build(spec["model"], spec.get("ranks"))
    m2 = dict(spec["model2"])
    m2["assign_style"] = True  # built like the library's own tests do: defaults, then skill maps filled item by item
    b1 = B.build(m2, None)
    ps = [b0.project, b1.project]
    for p in ps:
        seams.attach(p)
    cfgs = [spec["cfg"], spec["cfg2"]]
    for op in spec["ops"]:
        p = ps[op["p"]]
        cfg = cfgs[op["p"]]
        kind = op["op"]
        o_ = None
        if kind == "sim_defaults":
            res.count("history_default_args_call")
            o_ = D.call(lambda: p.simulate(max_time=cfg["max_time"]), D.Recorder(p, want_snap=False))
        elif kind == "sim":
            o_ = scen.simulate(p, cfg, want_snap=False)[1]
        elif kind == "insert":
            res.count("history_insert_absence")
            if len(p.cost_list) > 0:
                o_ = D.call(lambda: p.insert_absence_time_list(list(op["steps"])))
        elif kind == "remove":
            if len(p.cost_list) > 0:
                o_ = D.call(lambda: p.remove_absence_time_list())
        elif kind == "backward":
            o_ = scen.simulate(p, cfg, want_snap=False, backward={"due": op["due"], "reverse": op["reverse"]})[1]
        elif kind == "backward_defaults":
            res.count("history_default_args_call")
            o_ = D.call(lambda: p.backward_simulate(max_time=cfg["max_time"]), D.Recorder(p, want_snap=False))
        elif kind == "refused_call":
            # a call the library refuses (unsupported task_performed_mode): the documented exception must leave the model as it was
            if op.get("backward"):
                o_r = D.call(lambda: p.backward_simulate(task_performed_mode="single-worker", max_time=cfg["max_time"]), D.Recorder(p, want_snap=False))
            else:
                o_r = D.call(lambda: p.simulate(task_performed_mode="single-worker", max_time=cfg["max_time"]), D.Recorder(p, want_snap=False))
            res.count("history_refused_call")
            if intact is not None and op["p"] == 0:
                intact(p, "after a refused %s call" % ("backward_simulate" if op.get("backward") else "simulate"))
        elif kind == "charts":
            # the matplotlib chart helpers (they draw; they must not change the model)
            try:
                import matplotlib
                matplotlib.use("Agg")
                import matplotlib.pyplot as plt
                D.call(lambda: p.workflow.create_simple_gantt(view_auto_task=bool(op.get("auto"))))
                D.call(lambda: p.product.create_simple_gantt())
                D.call(lambda: p.organization.create_simple_gantt())
                plt.close("all")
                res.count("history_chart_helpers")
            except ImportError:
                pass
            if intact is not None and op["p"] == 0:
                intact(p, "after the chart helpers were called")
        elif kind == "getters":
            C.call_getters(p)
            if intact is not None and op["p"] == 0:
                intact(p, "after the unfiltered get_*_list helpers were called")
        if o_ is not None and o_.exc_type == "SutHang":
            # the first call on each project returned; a later call that never returns is behaviour changed by the history
            res.add("history", "C09.call_after_history_does_not_terminate." + kind,
                    "op %s of the history %s on project %d did not return (%s)" % (op, spec["ops"], op["p"], o_.where), None)
            return 1
        if intact is not None and op["p"] == 0 and o_ is not None and o_.ok:
            intact(p, "after op %s of a history" % kind)
        g = globals_digest()
        if g != g0:
            res.add("global", "C09.global_state_changed_by." + kind,
                    "process-global state of pDESy (mutable default arguments / module-level containers) changed during op %s: "
                    "simulate.__defaults__ now %r" % (op, env.M.bp.BaseProject.simulate.__defaults__), None)
            g0 = g
    # a fresh third project simulated with pure defaults must behave like a fresh process
    b2 = B.build(spec["model"], spec.get("ranks"))
    D.call(lambda: b2.project.simulate(max_time=spec["cfg"]["max_time"]), D.Recorder(b2.project, want_snap=False))
    cfg_def = {"rule": 0, "absence": [], "auto_flag": False, "max_time": spec["cfg"]["max_time"]}
    seams.reset_global_defaults()
    scen.setup_run(spec.get("seed", 0))
    b3 = B.build(spec["model"], spec.get("ranks"))
    scen.simulate(b3.project, cfg_def, want_snap=False)
    diff = D.first_diff(D.dump(b3.project), D.dump(b2.project))
    if diff is not None:
        res.add("history", "C09.later_default_run_differs", "after the history %s a new project simulated with default arguments differs "
                "from the same run in a clean process at %s: %r vs %r" % (spec["ops"], diff[0], diff[1], diff[2]), None)
    # and project 0 re-simulated with the reference configuration equals the reference
    rec, out = scen.simulate(ps[0], spec["cfg"], want_snap=False)
    d = D.dump(ps[0])
    d["_outcome"] = [out.ok, out.exc_type, out.where]
    diff = D.first_diff(dref, d)
    if diff is not None:
        res.add("history", "C09.resimulate_after_history_differs", "project re-simulated after the history %s differs from its clean run at %s: %r vs %r"
                % (spec["ops"], diff[0], diff[1], diff[2]), None)
    return 2


# ---- fresh interpreter batch -----------------------------------------------------------------
def plain_digests(base_seed, n, tier="quick"):
    from .. import campaign

    out = []
    for i in range(n):
        spec = campaign.make_spec(sys.modules[__name__], base_seed, i, tier)
        tr = one_run(spec, None, plain=True)
        out.append(D.digest(outcome_dump(tr)))
    return out


def post(tier, base_seed):
    """Re-execute a batch with unmodified classes in a fresh interpreter under another PYTHONHASHSEED."""
    from .. import campaign

    n = 600 if tier == "quick" else 3000
    here = plain_digests(base_seed, n, tier)
    ranked = []
    for i in range(n):
        spec = campaign.make_spec(sys.modules[__name__], base_seed, i, tier)
        tr = one_run(spec, spec.get("ranks"))
        ranked.append(D.digest(outcome_dump(tr)))
    code = ("import sys, json; sys.path.insert(0, %r)\nfrom dst import env\nenv.setup(%r)\nfrom dst.props import c09\n"
            "print('D=' + json.dumps(c09.plain_digests(%d, %d, %r)))\n" % (env.VERIF, env.REPO, base_seed, n, tier))
    there = None
    for hs in ("4242", "7"):
        # (two children: an order that depends on string hashes may coincide under one hash seed)
        envv = dict(os.environ)
        envv["PYTHONHASHSEED"] = hs
        p = subprocess.run([sys.executable, "-c", code], env=envv, capture_output=True, text=True, timeout=3000)
        got = None
        for line in p.stdout.splitlines():
            if line.startswith("D="):
                got = json.loads(line[2:])
        if got is None:
            raise RuntimeError("fresh-interpreter child failed: %s %s" % (p.stdout[-1000:], p.stderr[-2000:]))
        if there is None:
            there = got
        else:
            there = [a if a != here[i] else b for i, (a, b) in enumerate(zip(there, got))]  # keep a differing digest if any child differs
    viol = []
    for i in range(n):
        if here[i] != there[i] or here[i] != ranked[i]:
            spec = campaign.make_spec(sys.modules[__name__], base_seed, i, tier)
            spec["mode"] = "plain"
            spec["garbage"] = [64]
            what = "fresh interpreter (PYTHONHASHSEED=4242 / 7)" if here[i] != there[i] else "ranked vs unmodified classes"
            viol.append((i, spec, {"clause": "fresh", "key": "C09.address_dependent.kinds_" + edge_tags(spec["model"]),
                                   "msg": "run %d: %s gives a different result digest (%s / %s / %s)" % (i, what, ranked[i], here[i], there[i]),
                                   "step": None}))
    return {"fresh_interpreter_compared": n}, viol
