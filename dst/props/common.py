"""Shared pieces of the property modules: forward spec generation, trace walking, display rule."""
from .. import campaign, gen, scen
from .. import director as D
from ..static import Static, TOL

NONE, READY, WORKING, FINISHED = D.NONE, D.READY, D.WORKING, D.FINISHED
RANK = {NONE: 0, READY: 1, WORKING: 2, 3: 2, FINISHED: 3}
SNAME = {NONE: "NONE", READY: "READY", WORKING: "WORKING", FINISHED: "FINISHED", 3: "WORKING_ADD"}
ORDER = ("updated", "allocated", "performed", "recorded")


def forward_spec(rng, tier, focus=None, max_time=None, feasible=False):
    p = gen.gen_profile(rng, focus)
    if tier == "thorough" and rng.random() < 0.08:
        p["big"] = True  # 9-14 tasks (thorough tier only)
    m = gen.gen_feasible(rng, p) if feasible else gen.gen_model(rng, p)
    cfg = gen.gen_cfg(rng, p, max_time=max_time)
    ranks = gen.gen_ranks(rng, m)
    return {"profile": p, "model": m, "cfg": cfg, "ranks": ranks}


def run_forward(spec, **kw):
    scen.setup_run(spec.get("seed", 0))
    return scen.run_forward(spec["model"], spec.get("ranks"), spec["cfg"], **kw)


def walk(rec):
    """Yield (label, step_time, phase, snapshot) in execution order."""
    if rec.init_snap is not None:
        yield ("init", -1, "init", rec.init_snap)
    for s in rec.steps:
        for ph in ORDER:
            sn = s.ph.get(ph)
            if sn is not None:
                yield ("t=%d/%s" % (s.t, ph), s.t, ph, sn)


def full_steps(rec):
    """Step records that ran to the 'recorded' phase (= simulated steps)."""
    return [s for s in rec.steps if s.ph.get("recorded") is not None]


def display_task(state, working):
    if not working and state == WORKING:
        return READY
    return state


def state_digests(rec):
    """crc32 digests of the live state at the 'recorded' instant of every step (measure of distinct states reached)."""
    import zlib

    out = set()
    for s in rec.steps:
        sn = s.ph.get("recorded")
        if sn is not None:
            out.add(zlib.crc32(repr((sn["T"], sn["C"], sn["W"], sn["F"], sn["P"])).encode()))
    return out


def base_result(tr):
    res = campaign.Result()
    res.steps = tr.rec.n_recorded
    res.rec = tr.rec  # the campaign driver derives the distinct-state measure from it on sampled runs
    res.count("runs")
    res.count("steps", tr.rec.n_recorded)
    if not tr.out.ok:
        res.count("sut_exception")
        res.count("sut_exception:%s@%s" % (tr.out.exc_type, tr.out.where))
    st = int(tr.project.status)
    res.count("status_%s" % {1: "success", -1: "failure", 0: "none"}.get(st, st))
    absn = tr.absence
    fired = sum(1 for s in full_steps(tr.rec) if s.t in absn)
    res.count("fault.project_absence_step", fired)
    if absn:
        res.count("fault.absence_beyond_end", sum(1 for a in absn if a >= tr.project.time))
    return res


def finish(res, tr):
    res.digest = D.digest(D.dump(tr.project, tr.ix))
    return res
