"""Shared pieces of the property modules: forward spec generation, trace walking, display rule."""
from .. import campaign, gen, scen
from .. import director as D
from ..static import Static, TOL

NONE, READY, WORKING, FINISHED = D.NONE, D.READY, D.WORKING, D.FINISHED
RANK = {NONE: 0, READY: 1, WORKING: 2, 3: 2, FINISHED: 3}
SNAME = {NONE: "NONE", READY: "READY", WORKING: "WORKING", FINISHED: "FINISHED", 3: "WORKING_ADD"}
ORDER = ("updated", "allocated", "performed", "recorded")


def forward_spec(rng, tier, focus=None, max_time=None, feasible=False):
    p = gen.gen_profile(rng, focus)
    if tier == "thorough" and rng.random() < 0.08:
        p["big"] = True  # 9-14 tasks (thorough tier only)
    m = gen.gen_feasible(rng, p) if feasible else gen.gen_model(rng, p)
    cfg = gen.gen_cfg(rng, p, max_time=max_time)
    ranks = gen.gen_ranks(rng, m)
    return {"profile": p, "model": m, "cfg": cfg, "ranks": ranks}


def maybe_history(rng, spec, prob=0.3, reload_prob=0.15):
    """Attach a two-call history to a forward spec: a first simulate() (cut off at step k, or complete) followed
    by the simulate() the oracles look at, called with a seeded combination of the initialize flags; optionally
    the project is written to JSON and read back *into the same object* in between."""
    if rng.random() < prob:
        k = rng.choice([None, None, rng.randint(0, 8), rng.randint(1, 15)])
        flags = rng.choice([(True, True), (True, True), (False, False), (True, False), (True, False), (False, True)])
        spec["history"] = {"k": k, "state": flags[0], "log": flags[1], "reload": rng.random() < reload_prob}
        if rng.random() < 0.3:
            spec["history"]["first_absence"] = gen.gen_absence(rng, 12, rng.randint(1, 5))  # the first call had other absence steps
        if rng.random() < 0.2:
            spec["history"]["interleave"] = True  # a second project built from the same model (same IDs) runs in between
    return spec


def maybe_org_edit(rng, spec, prob=0.3):
    """Extend a two-call history (state reset) by an edit of the organisation through the public API between the calls:
    a team gets one more targeted task, or a worker is moved to another team.  spec["model"] is the model *after*
    the edit (what the observed call runs on); the first call runs on the model before the edit."""
    h = spec.get("history")
    if h is None or not h["state"] or rng.random() >= prob:
        return spec
    m = spec["model"]
    ops = []
    teams = m["teams"]
    for _ in range(rng.randint(1, 2)):
        if rng.random() < 0.5:
            cands = [(ti, k) for ti, tm in enumerate(teams) for k in tm["targets"] if k not in (tm.get("ctor_targets") or [])
                     and not any(o[0] == "add_target" and o[1] == ti and o[2] == k for o in ops)]
            if cands:
                ti, k = rng.choice(cands)
                ops.append(["add_target", ti, k])
        elif len(teams) >= 2 and not any(o[0] == "move_worker" for o in ops):
            cands = [(tb, w["id"]) for tb, tm in enumerate(teams) for w in tm["workers"]]
            if cands:
                tb, wid = rng.choice(cands)
                ta = rng.choice([i for i in range(len(teams)) if i != tb])
                w = next(w for w in teams[tb]["workers"] if w["id"] == wid)
                teams[tb]["workers"].remove(w)
                teams[tb]["workers"].append(w)  # add_worker() appends: the moved worker is the last one of the new team
                ops.append(["move_worker", wid, ta, tb])
    if ops:
        h["org_edit"] = ops
        if h.get("k") is None:
            h["k"] = rng.randint(0, 12)  # the model before the edit may be unservable: its run is cut off, not run to the limit
        if rng.random() < 0.5:
            h["log"] = False  # (state reset, logs kept: what is cached per project survives, what is cached per state does not)
    return spec


def maybe_dep_edit(rng, spec, prob=0.3):
    """Extend a two-call history (state reset) by a dependency that is added between the calls with
    extend_input_task_list / append_input_task.  spec["model"] is the model *after* the edit."""
    h = spec.get("history")
    m = spec["model"]
    if h is None or not h["state"] or h.get("org_edit") or not m["deps"] or m.get("ext_preds") or rng.random() >= prob:
        return spec
    i = rng.randrange(len(m["deps"]))
    d = m["deps"].pop(i)
    m["deps"].append(d)  # a link made later is the last one of the successor's list
    h["org_edit"] = [["add_dep", d[0], d[1], d[2], rng.random() < 0.6]]
    if h.get("k") is None:
        h["k"] = rng.randint(0, 12)
    return spec


def maybe_abs_edit(rng, spec, prob=0.3):
    """Extend a two-call history by an edit of a worker's / facility's own absence list between the calls.  spec["model"]
    holds the list *after* the edit."""
    h = spec.get("history")
    if h is None or h.get("org_edit") or rng.random() >= prob:
        return spec
    m = spec["model"]
    pool = [("worker", w) for tm in m["teams"] for w in tm["workers"]] + [("facility", f) for wp in m["wps"] for f in wp["facs"]]
    if not pool:
        return spec
    kind, r = rng.choice(pool)
    old = list(r.get("abs", []))
    if old and rng.random() < 0.5:
        new = old + [rng.randint(0, 14) for _ in range(rng.randint(1, 3))]
    else:
        new = gen.gen_absence(rng, 14, rng.randint(1, 4))
    r["abs"] = list(new)
    h["org_edit"] = [["set_abs", kind, r["id"], old, list(new)]]
    if h.get("k") is None:
        h["k"] = rng.randint(0, 12)
    return spec


def pre_edit_model(model, ops):
    import copy
    m = copy.deepcopy(model)
    for op in reversed(ops):
        if op[0] == "add_target":
            m["teams"][op[1]]["targets"].remove(op[2])
        elif op[0] == "move_worker":
            _, wid, ta, tb = op
            w = next(w for w in m["teams"][tb]["workers"] if w["id"] == wid)
            m["teams"][tb]["workers"].remove(w)
            m["teams"][ta]["workers"].append(w)
        elif op[0] == "add_dep":
            idx = [i_ for i_, d in enumerate(m["deps"]) if d[0] == op[1] and d[1] == op[2] and d[2] == op[3]]
            if idx:
                del m["deps"][idx[-1]]
        elif op[0] == "set_abs":
            _, kind, rid, old, new = op
            for r in ([w for tm in m["teams"] for w in tm["workers"]] if kind == "worker" else [f for wp in m["wps"] for f in wp["facs"]]):
                if r["id"] == rid:
                    if old:
                        r["abs"] = list(old)
                    else:
                        r.pop("abs", None)
    return m


def apply_org_edit(p, model, ops):
    """The edit on the live objects, through the public API (objects looked up by ID: the project may have been reloaded)."""
    team = {t.ID: t for t in p.organization.team_list}
    task = {t.ID: t for t in p.workflow.task_list}
    for op in ops:
        if op[0] == "add_target":
            team[model["teams"][op[1]]["id"]].append_targeted_task(task[model["tasks"][op[2]]["id"]])
        elif op[0] == "move_worker":
            _, wid, ta, tb = op
            old, new = team[model["teams"][ta]["id"]], team[model["teams"][tb]["id"]]
            w = next(w for w in old.worker_list if w.ID == wid)
            old.worker_list.remove(w)
            new.add_worker(w)
        elif op[0] == "add_dep":
            TD = env_mod().bt.BaseTaskDependency
            pred, succ = task[model["tasks"][op[1]]["id"]], task[model["tasks"][op[2]]["id"]]
            if op[4]:
                succ.extend_input_task_list([pred], TD(op[3]))
            else:
                succ.append_input_task(pred, task_dependency_mode=TD(op[3]))
        elif op[0] == "set_abs":
            _, kind, rid, old_, new_ = op
            pool = [w for tm in p.organization.team_list for w in tm.worker_list] if kind == "worker" else \
                [f for wp in p.organization.workplace_list for f in wp.facility_list]
            r = next(x for x in pool if x.ID == rid)
            if op[4] and list(op[4])[:len(old_)] == list(old_) and len(r.absence_time_list) == len(old_):
                r.absence_time_list.extend(list(new_)[len(old_):])  # the user's list extended in place
            else:
                r.absence_time_list = list(new_)


def env_mod():
    from .. import env
    return env.M


def maybe_from_json(rng, spec, prob=0.08):
    if spec.get("history") is None and spec.get("prelude_backward") is None and not spec["model"].get("ext_preds") and rng.random() < prob:
        spec["from_json"] = True
    return spec


def maybe_prelude_backward(rng, spec, prob=0.1):
    if spec.get("history") is None and rng.random() < prob:
        spec["prelude_backward"] = {"due": rng.random() < 0.4, "reverse": rng.random() < 0.5, "limit": rng.choice([None, None, 1, 3, 6])}
    return spec


def history_candidates(spec):
    if spec.get("from_json"):
        c = dict(spec)
        c.pop("from_json")
        yield c
    if spec.get("prelude_backward") is not None:
        c = dict(spec)
        c.pop("prelude_backward")
        yield c
    h = spec.get("history")
    if h is not None:
        c = dict(spec)
        c.pop("history")
        yield c
        if h.get("org_edit"):
            for i in range(len(h["org_edit"])):
                # drop one edit op: the model the first call runs on gets closer to the final one
                c = dict(spec)
                c["history"] = dict(h, org_edit=h["org_edit"][:i] + h["org_edit"][i + 1:])
                if not c["history"]["org_edit"]:
                    c["history"].pop("org_edit")
                yield c
        if h.get("reload"):
            c = dict(spec)
            c["history"] = dict(h, reload=False)
            yield c
        if h.get("charts_between"):
            c = dict(spec)
            c["history"] = dict(h, charts_between=False)
            yield c
        for k_ in ("first_absence", "interleave"):
            if h.get(k_):
                c = dict(spec)
                c["history"] = {a_: b_ for a_, b_ in h.items() if a_ != k_}
                yield c
        if (h["state"], h["log"]) != (True, True):
            c = dict(spec)
            c["history"] = dict(h, state=True, log=True)
            yield c


def call_getters(p):
    """Helpers whose names say they only read (a user may call them at any time)."""
    org, wf, prod = p.organization, p.workflow, p.product
    for fn in (org.get_worker_list, org.get_facility_list, org.get_team_list, org.get_workplace_list, wf.get_task_list,
               prod.get_component_list, p.get_all_task_list if hasattr(p, "get_all_task_list") else wf.get_task_list):
        D.call(lambda: fn())


def call_chart_data(p):
    """The helpers that turn the logs into chart data (they only read; a user may look at a chart at any time)."""
    import datetime as _dt
    t0, dt = _dt.datetime(2024, 1, 1, 8, 0, 0), _dt.timedelta(hours=1)
    n = 0
    for holder in (p.workflow, p.product, p.organization):
        fn = getattr(holder, "create_data_for_gantt_plotly", None)
        if fn is not None:
            D.call(lambda: fn(t0, dt))
            n += 1
    objs = list(p.workflow.task_list) + list(p.product.component_list)
    for tm in p.organization.team_list:
        objs += list(tm.worker_list)
    for wp in p.organization.workplace_list:
        objs += list(wp.facility_list)
    for o in objs:
        fn = getattr(o, "get_time_list_for_gannt_chart", None)
        if fn is not None:
            D.call(lambda: fn())
            D.call(lambda: fn(finish_margin=0.5))
            n += 1
    return n


def run_forward(spec, **kw):
    """Run the scenario's simulate() call under a Recorder.  With spec["history"] the observed call is the second
    one of a two-call history on the same project object (see maybe_history)."""
    scen.setup_run(spec.get("seed", 0))
    hist = spec.get("history")
    from .. import build as B
    from .. import seams
    pb = spec.get("prelude_backward")
    if hist is None and pb is not None:
        # a backward simulation on the same object first; the forward run that follows is the one the oracles look at
        tr = scen.Trace()
        tr.model, tr.cfg = spec["model"], spec["cfg"]
        tr.built = B.build(spec["model"], spec.get("ranks"))
        tr.project = tr.built.project
        tr.absence = set(spec["cfg"].get("absence", []))
        pcfg = dict(spec["cfg"])
        if pb.get("limit") is not None:
            pcfg["max_time"] = pb["limit"]
        scen.simulate(tr.project, pcfg, want_snap=False, backward=pb)
        tr.rec, tr.out = scen.simulate(tr.project, spec["cfg"], **kw)
        tr.ix = tr.rec.ix
        tr.log_offset = 0
        tr.history = None
        return tr
    if hist is None and spec.get("from_json"):
        # the model is written to a file before it was ever simulated and read into a new project: the observed run is the
        # restored project's (a model read from a file is a model)
        tr = scen.Trace()
        tr.model, tr.cfg = spec["model"], spec["cfg"]
        tr.built = B.build(spec["model"], spec.get("ranks"))
        tr.absence = set(spec["cfg"].get("absence", []))
        new, ow, orr = scen.save_load(tr.built.project, "mem:model.json", spec.get("ranks"))
        tr.project = new if new is not None else tr.built.project
        tr.restored_from_json = new is not None
        tr.rec, tr.out = scen.simulate(tr.project, spec["cfg"], **kw)
        tr.ix = tr.rec.ix
        tr.log_offset = 0
        tr.history = None
        return tr
    if hist is None and spec.get("getters_first"):
        tr = scen.Trace()
        tr.model, tr.cfg = spec["model"], spec["cfg"]
        tr.built = B.build(spec["model"], spec.get("ranks"))
        tr.project = tr.built.project
        tr.absence = set(spec["cfg"].get("absence", []))
        call_getters(tr.project)
        tr.rec, tr.out = scen.simulate(tr.project, spec["cfg"], **kw)
        tr.ix = tr.rec.ix
        tr.log_offset = 0
        tr.history = None
        return tr
    if hist is None:
        tr = scen.run_forward(spec["model"], spec.get("ranks"), spec["cfg"], **kw)
        tr.log_offset = 0
        tr.history = None
        return tr
    tr = scen.Trace()
    tr.model, tr.cfg = spec["model"], spec["cfg"]
    ops = hist.get("org_edit")
    tr.built = B.build(pre_edit_model(spec["model"], ops) if ops else spec["model"], spec.get("ranks"))
    p = tr.project = tr.built.project
    tr.absence = set(spec["cfg"].get("absence", []))
    tr.history = hist
    cfg1 = dict(spec["cfg"])
    if hist.get("k") is not None:
        cfg1["max_time"] = hist["k"]
    if hist.get("first_absence") is not None:
        cfg1["absence"] = list(hist["first_absence"])
    rec1, out1 = scen.simulate(p, cfg1, want_snap=False)
    if hist.get("interleave"):
        other = B.build(pre_edit_model(spec["model"], ops) if ops else spec["model"], spec.get("ranks"))
        scen.simulate(other.project, spec["cfg"], want_snap=False)
    tr.first_out = out1
    tr.pre_reload_snap = None
    if out1.ok and hist.get("reload"):
        tr.pre_reload_snap = D.snapshot(D.index(p))  # what the first call left, before it went through the file
        ow = D.call(lambda: p.write_simple_json("mem:inplace.json"))
        if ow.ok:
            orr = D.call(lambda: p.read_simple_json("mem:inplace.json"))
            if orr.ok:
                seams.attach(p)
                seams.rerank(p, spec.get("ranks") or {})
    if ops:
        apply_org_edit(p, spec["model"], ops)
    if hist.get("charts_between"):
        call_chart_data(p)  # somebody looks at the charts of the paused run
    tr.first_snap = D.snapshot(D.index(p))  # the state the first call (and the optional reload) left
    tr.log_offset = len(p.cost_list) if not hist["log"] else 0
    cfg2 = dict(spec["cfg"])
    cfg2["init_state"], cfg2["init_log"] = bool(hist["state"]), bool(hist["log"])
    tr.rec, tr.out = scen.simulate(p, cfg2, **kw)
    tr.ix = tr.rec.ix
    return tr


def walk(rec):
    """Yield (label, step_time, phase, snapshot) in execution order."""
    if rec.init_snap is not None:
        yield ("init", -1, "init", rec.init_snap)
    for s in rec.steps:
        for ph in ORDER:
            sn = s.ph.get(ph)
            if sn is not None:
                yield ("t=%d/%s" % (s.t, ph), s.t, ph, sn)


def full_steps(rec):
    """Step records that ran to the 'recorded' phase (= simulated steps)."""
    return [s for s in rec.steps if s.ph.get("recorded") is not None]


def display_task(state, working):
    if not working and state == WORKING:
        return READY
    return state


def state_digests(rec):
    """crc32 digests of the live state at the 'recorded' instant of every step (measure of distinct states reached)."""
    import zlib

    out = set()
    for s in rec.steps:
        sn = s.ph.get("recorded")
        if sn is not None:
            out.add(zlib.crc32(repr((sn["T"], sn["C"], sn["W"], sn["F"], sn["P"])).encode()))
    return out


def base_result(tr):
    res = campaign.Result()
    res.steps = tr.rec.n_recorded
    res.rec = tr.rec  # the campaign driver derives the distinct-state measure from it on sampled runs
    res.count("runs")
    if getattr(tr, "history", None):
        h = tr.history
        res.count("history_runs")
        res.count("history.state%d_log%d%s" % (int(h["state"]), int(h["log"]), ".reload" if h.get("reload") else ""))
        if h.get("org_edit"):
            res.count("history.organisation_edited_between_calls")
        if h.get("first_absence") is not None:
            res.count("history.first_call_with_other_absence_list")
        if h.get("interleave"):
            res.count("history.other_project_of_same_model_in_between")
    if getattr(tr, "restored_from_json", False):
        res.count("model_restored_from_json")
    res.count("steps", tr.rec.n_recorded)
    if not tr.out.ok:
        res.count("sut_exception")
        res.count("sut_exception:%s@%s" % (tr.out.exc_type, tr.out.where))
    st = int(tr.project.status)
    res.count("status_%s" % {1: "success", -1: "failure", 0: "none"}.get(st, st))
    absn = tr.absence
    fired = sum(1 for s in full_steps(tr.rec) if s.t in absn)
    res.count("fault.project_absence_step", fired)
    if absn:
        res.count("fault.absence_beyond_end", sum(1 for a in absn if a >= tr.project.time))
    return res


def finish(res, tr):
    res.digest = D.digest(D.dump(tr.project, tr.ix))
    return res


def gen_edit(rng, spec, prob=0.12):
    """Attach a log edit (insert_absence_time_list after the run) to a forward spec without history."""
    if spec.get("history") is None and rng.random() < prob:
        ed = sorted(set(rng.randint(0, 12) for _ in range(rng.randint(1, 3))))
        ab = [a for a in spec["cfg"].get("absence", []) if a < 14]
        if ab and rng.random() < 0.4:
            # inserted steps on both sides of a step that is registered as an absence step already
            a = rng.choice(ab)
            ed = sorted(set([max(0, a - rng.randint(0, 2)), a + 1] + ([rng.randint(0, 12)] if rng.random() < 0.3 else [])))
        spec["edit"] = ed
    return spec


def edit_candidates(spec):
    if spec.get("edit"):
        c = dict(spec)
        c.pop("edit")
        yield c
        if len(spec["edit"]) > 1:
            for i in range(len(spec["edit"])):
                c = dict(spec)
                c["edit"] = spec["edit"][:i] + spec["edit"][i + 1:]
                yield c


def apply_edit(tr, steps):
    """insert_absence_time_list(steps) on the finished project of a trace; returns (outcome, marks) where marks[i] is
    True iff log index i is an inserted step, or None if the edit was not applicable."""
    p = tr.project
    n0 = len(p.cost_list)
    registered = list(p.absence_time_list)
    new = []
    ln = n0
    for s_ in sorted(steps):
        if s_ not in registered and s_ not in new and 0 <= s_ < ln:
            new.append(s_)
            ln += 1
    o = D.call(lambda: p.insert_absence_time_list(list(steps)))
    marks = [False] * n0
    for s_ in new:
        marks.insert(s_, True)
    # the steps the project registers as absence steps afterwards: every step registered before, moved back by one for every
    # step inserted at or before it (one insertion after the other, in ascending order), plus the inserted steps
    reg = list(registered)
    for s_ in new:
        reg = [r + 1 if r >= s_ else r for r in reg]
        reg.append(s_)
    tr.registered_after_edit = sorted(reg)
    return o, marks


def check_registered(res, tr, prefix):
    """After an edit of the logs the project's absence_time_list names exactly the absence steps of the edited logs."""
    exp = getattr(tr, "registered_after_edit", None)
    if exp is None:
        return
    got = sorted(tr.project.absence_time_list)
    res.count("registered_steps_after_edit_compared")
    if got != exp:
        res.add("edit", prefix + ".after_insert_absence.registered_steps",
                "after insert_absence_time_list(%s) on a result with registered absence steps: project.absence_time_list is %s, the absence "
                "steps of the edited logs are %s" % (getattr(tr, "edit", None), got, exp), None)
