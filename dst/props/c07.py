"""C07 - cost accounting adds up at every level and charges only working resources."""
from . import common as C
from .common import Static
from .. import director as D
from .. import gen as G

ID = "C07"
LEVEL = "exploration"
DESIGN_REF = "DESIGN.md section 5, C07"
TECHNIQUE = "deterministic simulation: seeded models with absence faults, history oracle over all cost logs at every step and level"
RULE = ("seeded models with random cost rates (incl. 0), absence patterns and run lengths; history oracle over the logs: "
        "resource cost[k] = cost_per_time*[logged WORKING at k] (0 for all at project absence steps), team/workplace = sum of "
        "members, organization = sum of teams+workplaces, project list == organization list, totals. Exact == under the dyadic "
        "cost alphabet. Non-trivial = total cost > 0 and >= 2 steps; distinct = scenario digests")
ASSUMPTIONS = ["unit_time = 1", "models <= 8 tasks"]
LEVEL_TEXT = "Seeded exploration; the full cost hierarchy is recomputed from the state logs for every step of every run."
LEVEL_NOTE = "Trusted: the recomputation in the oracle; sampling evidence only."
PROBES = ["remove_runs", "reloaded_logs_checked", "history_reload_in_place", "history_runs", "edit_runs", "backward_runs", "charged_worker_step", "charged_facility_step", "zero_cost_working_resource", "absence_step_zero_cost",
          "individually_absent_holder_not_charged"]


def budget(tier):
    return 8000 if tier == "quick" else 2500000


def gen(rng, tier):
    focus = {}
    if rng.random() < 0.5:
        focus.update(comps=True, facilities=True)
    if rng.random() < 0.5:
        focus["proj_abs"] = True
    if rng.random() < 0.4:
        focus["res_abs"] = True
    spec = C.forward_spec(rng, tier, focus)
    if rng.random() < 0.15:
        spec["cfg"]["unit_time"] = rng.choice([2, 3])  # the clock advances by 2 or 3 per step; the accounting is per step
    if rng.random() < 0.3:
        spec["history"] = {"k": rng.randint(0, 8), "state": rng.random() < 0.5, "log": rng.random() < 0.5, "reload": rng.random() < 0.3}
    elif rng.random() < 0.15:
        spec["backward"] = {"due": rng.random() < 0.3, "reverse": rng.random() < 0.7}
        if rng.random() < 0.5:
            # ... and the logs of the backward run are edited afterwards (absence steps inserted or deleted)
            if rng.random() < 0.5 and spec["cfg"].get("absence"):
                spec["remove"] = True
            else:
                spec["edit"] = [rng.randint(0, 10) for _ in range(rng.randint(1, 3))]
    elif rng.random() < 0.2:
        ed = [rng.randint(0, 10) for _ in range(rng.randint(1, 4))]
        if rng.random() < 0.5 and spec["cfg"].get("absence"):
            ed.append(spec["cfg"]["absence"][0])  # a step that is already registered
        if rng.random() < 0.4:
            ed.append(ed[0])  # a duplicate
        spec["edit"] = ed
    elif rng.random() < 0.2 and spec["cfg"].get("absence"):
        spec["remove"] = True  # the absence steps are deleted from the logs afterwards: every level must still add up
    if spec.get("history") is None and spec.get("backward") is None and rng.random() < 0.1:
        spec["getters_first"] = True  # the unfiltered get_*_list helpers are called before the run
    if spec.get("history") is None and rng.random() < 0.06:
        spec["model"]["worker_copies"] = True  # workers are shallow copies of one template object
    if spec.get("history") is None and spec.get("backward") is None and not spec.get("getters_first") and not spec["model"].get("worker_copies") \
            and rng.random() < 0.06:
        spec["two_fresh"] = True  # two freshly built projects in one process, each first run with initialize_log_info=False
    if rng.random() < 0.12:
        spec["reload_after"] = True  # ... and the accounting is a property of the logs, also of logs read back from a file
    if rng.random() < 0.08 and not any(spec.get(k_) for k_ in ("history", "backward", "edit", "remove", "getters_first", "two_fresh", "reload_after")) \
            and not spec["model"].get("worker_copies") and spec["cfg"].get("unit_time", 1) == 1:
        # a run made in two parts (cut off at k and saved; restarted from the file with new logs; the second log appended to the
        # first project with append_project_log_from_simple_json): the stitched cost logs still add up member by member
        k = rng.randint(1, 8)
        spec["cfg"]["absence"] = [a for a in spec["cfg"].get("absence", []) if a < k]
        spec["appended"] = {"k": k, "absence2": G.gen_absence(rng, 10, rng.randint(0, 3))}
    return spec


def check_appended(res, spec, exact):
    """Stitched logs (scenario of c01.check_appended): every team's / workplace's cost log has one entry per step and entry i is the
    sum of its members' entries; the project's entry is the sum over teams and workplaces.  (organization.cost_list is not part of
    what the helper stitches and is not judged.)"""
    from . import c01
    p = c01.check_appended(C.campaign.Result(), spec)
    if p is None:
        return
    res.count("appended_logs_checked")
    n = len(p.cost_list)
    groups = [("team", tm, tm.worker_list) for tm in p.organization.team_list] + [("workplace", wp, wp.facility_list) for wp in p.organization.workplace_list]
    for kind, g, members in groups:
        if len(g.cost_list) != n or any(len(r.cost_list) != n for r in members):
            res.add("appended", "C07.after_append_log.length_mismatch.%s" % kind, "stitched logs: %s %s has %d cost entries, its members %s, the project %d"
                    % (kind, g.ID, len(g.cost_list), [len(r.cost_list) for r in members], n), None)
            return
        for i in range(n):
            if not close(g.cost_list[i], sum(r.cost_list[i] for r in members), exact):
                res.add("appended", "C07.after_append_log.sum.%s" % kind, "stitched logs: %s %s cost[%d] = %r, its members' entries %s"
                        % (kind, g.ID, i, g.cost_list[i], [r.cost_list[i] for r in members]), i)
                return
    for i in range(n):
        if not close(p.cost_list[i], sum(g.cost_list[i] for _, g, _ in groups), exact):
            res.add("appended", "C07.after_append_log.sum.project", "stitched logs: project cost[%d] = %r, teams and workplaces %s"
                    % (i, p.cost_list[i], [g.cost_list[i] for _, g, _ in groups]), i)
            return


def extra_candidates(spec):
    if spec.get("appended") is not None:
        c = dict(spec)
        c.pop("appended")
        yield c
    if spec.get("history") is not None:
        c = dict(spec)
        c.pop("history")
        yield c
    if spec.get("backward") is not None:
        c = dict(spec)
        c.pop("backward")
        yield c
    for k_ in ("remove", "reload_after", "getters_first", "two_fresh"):
        if spec.get(k_):
            c = dict(spec)
            c.pop(k_)
            yield c
    if (spec.get("history") or {}).get("reload"):
        c = dict(spec)
        c["history"] = dict(spec["history"], reload=False)
        yield c
    if spec.get("edit"):
        c = dict(spec)
        c.pop("edit")
        yield c
        for i in range(len(spec["edit"])):
            if len(spec["edit"]) > 1:
                c = dict(spec)
                c["edit"] = spec["edit"][:i] + spec["edit"][i + 1:]
                yield c


def close(a, b, exact):
    if a == b:
        return True
    if exact:
        return False
    return abs(a - b) <= 1e-9 * max(1.0, abs(a), abs(b))


def check_logs(res, project, ix, absence, exact, steps_t=None, prefix="C07"):
    """History oracle on the cost logs.  ``steps_t``: simulated time of log index i (default i)."""
    org = project.organization
    n = len(project.cost_list)
    total_from_states = 0.0
    for kind, groups in (("team", [(tm, tm.worker_list) for tm in ix.teams]),
                         ("workplace", [(wp, wp.facility_list) for wp in ix.wps])):
        for g, members in groups:
            for r in members:
                m = min(len(r.cost_list), len(r.state_record_list))
                if len(r.cost_list) != len(r.state_record_list):
                    res.add("len", prefix + ".length_mismatch.resource", "%s %s: %d cost entries, %d state entries"
                            % (kind, r.ID, len(r.cost_list), len(r.state_record_list)), None)
                for i in range(m):
                    t = steps_t[i] if steps_t is not None and i < len(steps_t) else i
                    w = int(r.state_record_list[i]) == D.R_WORKING
                    exp = r.cost_per_time if w else 0.0
                    if t in absence:
                        exp = 0.0
                        res.count("absence_step_zero_cost")
                    if w:
                        res.count("charged_worker_step" if kind == "team" else "charged_facility_step")
                        if r.cost_per_time == 0.0:
                            res.count("zero_cost_working_resource")
                        total_from_states += exp
                    elif r.assigned_task_id_record[i:i + 1] and r.assigned_task_id_record[i]:
                        res.count("individually_absent_holder_not_charged")
                    if not close(r.cost_list[i], exp, exact):
                        res.add("resource", "%s.resource_cost.%s" % (prefix, "member_of_" + kind),
                                "%s member %s: cost log at step %d is %r, expected %r (state %d, cost_per_time %r)"
                                % (kind, r.ID, t, r.cost_list[i], exp, int(r.state_record_list[i]), r.cost_per_time), t)
                        break
            for i in range(len(g.cost_list)):
                exp = 0.0
                okk = True
                for r in members:
                    if i < len(r.cost_list):
                        exp += r.cost_list[i]
                    else:
                        okk = False
                if okk and not close(g.cost_list[i], exp, exact):
                    res.add("group", "%s.group_cost.%s" % (prefix, kind), "%s %s: cost at index %d is %r, members sum to %r"
                            % (kind, g.ID, i, g.cost_list[i], exp), i)
                    break
    groups = list(ix.teams) + list(ix.wps)
    for i in range(len(org.cost_list)):
        if all(i < len(g.cost_list) for g in groups):
            exp = 0.0
            for g in ix.teams:
                exp += g.cost_list[i]
            for g in ix.wps:
                exp += g.cost_list[i]
            if not close(org.cost_list[i], exp, exact):
                res.add("org", prefix + ".organization_cost", "organization cost at index %d is %r, teams+workplaces sum to %r"
                        % (i, org.cost_list[i], exp), i)
                break
    if [float(x) for x in project.cost_list] != [float(x) for x in org.cost_list]:
        res.add("project", prefix + ".project_vs_organization", "project.cost_list %r differs from organization.cost_list %r"
                % (project.cost_list[:12], org.cost_list[:12]), None)
    tot = sum(project.cost_list)
    if not close(tot, total_from_states, False if not exact else False) and abs(tot - total_from_states) > 1e-6 * max(1, abs(tot)):
        res.add("total", prefix + ".total", "total project cost %r but sum over resources of cost_per_time x WORKING steps is %r"
                % (tot, total_from_states), None)
    return tot, n


def run(spec):
    from .. import scen
    hist = spec.get("history")
    if spec.get("backward") is not None:
        # backward simulation (logs reversed or not): the accounting must add up at every level, index by index
        from .. import build as B
        scen.setup_run(spec.get("seed", 0))
        tr = scen.Trace()
        tr.model, tr.cfg = spec["model"], spec["cfg"]
        tr.built = B.build(spec["model"], spec.get("ranks"))
        tr.project = tr.built.project
        tr.rec, tr.out = scen.simulate(tr.project, spec["cfg"], want_snap=False, backward=spec["backward"])
        tr.ix = tr.rec.ix
        tr.absence = set()  # resources are logged ABSENCE at absence steps, which the state-based oracle charges 0 anyway
        tr.history, tr.log_offset = None, 0
        res = C.base_result(tr)
        res.count("backward_runs")
        steps_t = None
    elif hist is None and spec.get("two_fresh"):
        from .. import build as B
        scen.setup_run(spec.get("seed", 0))
        cfgk = dict(spec["cfg"], init_log=False)
        b0 = B.build(spec["model"], spec.get("ranks"))
        scen.simulate(b0.project, cfgk, want_snap=False)
        tr = scen.Trace()
        tr.model, tr.cfg = spec["model"], cfgk
        tr.built = B.build(spec["model"], spec.get("ranks"))
        tr.project = tr.built.project
        tr.absence = set(cfgk.get("absence", []))
        tr.rec, tr.out = scen.simulate(tr.project, cfgk)
        tr.ix = tr.rec.ix
        tr.history, tr.log_offset = None, 0
        res = C.base_result(tr)
        res.count("second_fresh_project_keeping_logs")
        steps_t = [s.t for s in C.full_steps(tr.rec)]
    elif hist is None:
        tr = C.run_forward(spec)
        res = C.base_result(tr)
        steps_t = [s.t for s in C.full_steps(tr.rec)]
    else:
        # interrupted run continued with a seeded combination of initialize flags: the accounting must still add up
        first = dict(spec["cfg"])
        first["max_time"] = hist["k"]
        cut = dict(spec, cfg=first)
        tr = C.run_forward(cut)
        res = C.base_result(tr)
        res.count("history_runs")
        res.count("history_flags_state%d_log%d" % (int(hist["state"]), int(hist["log"])))
        steps_t = None
        if tr.out.ok and hist.get("reload"):
            # the paused project is written to a file and read back into the same object
            from .. import director as D_
            from .. import seams
            p_ = tr.project
            if D_.call(lambda: p_.write_simple_json("mem:c07.json")).ok and D_.call(lambda: p_.read_simple_json("mem:c07.json")).ok:
                seams.attach(p_)
                seams.rerank(p_, spec.get("ranks") or {})
                res.count("history_reload_in_place")
        if tr.out.ok:
            cfg2 = dict(spec["cfg"])
            cfg2["init_state"], cfg2["init_log"] = bool(hist["state"]), bool(hist["log"])
            rec2, out2 = scen.simulate(tr.project, cfg2, want_snap=False)
            res.steps += rec2.n_recorded
    exact = spec.get("profile", {}).get("alphabet") == "dyadic"
    if spec.get("edit") and tr.out.ok:
        # log edit after the run: every level must still add up (inserted steps are zero-cost steps)
        from .. import director as D_
        res.count("edit_runs")
        o = D_.call(lambda: tr.project.insert_absence_time_list(list(spec["edit"])))
        steps_t = None
        tr.absence = set()  # after the edit, log indices no longer equal simulation times: absence steps are zero-cost anyway
    if spec.get("remove") and tr.out.ok and not spec.get("edit"):
        from .. import director as D_
        res.count("remove_runs")
        D_.call(lambda: tr.project.remove_absence_time_list())
        steps_t = None
        tr.absence = set()
    if spec.get("reload_after") and tr.out.ok:
        new, ow, orr = scen.save_load(tr.project, "mem:c07b.json", spec.get("ranks"))
        if new is not None:
            res.count("reloaded_logs_checked")
            tr.project = new
    tr.ix = D.index(tr.project)  # (objects are replaced by a reload)
    if steps_t is None and spec["cfg"].get("unit_time", 1) != 1:
        tr.absence = set()  # log index != clock value: rely on the logged ABSENCE states (zero charge) instead of the time list
    tot, n = check_logs(res, tr.project, tr.ix, tr.absence, exact, steps_t)
    for kind, groups in (("team", [(tm, tm.worker_list) for tm in tr.ix.teams]), ("workplace", [(wp, wp.facility_list) for wp in tr.ix.wps])):
        for g, members in groups:
            if len(g.cost_list) != len(tr.project.cost_list) or any(len(r.cost_list) != len(g.cost_list) for r in members):
                res.add("len", "C07.length_mismatch.%s" % kind, "%s %s has %d cost entries, its members %s, the project %d"
                        % (kind, g.ID, len(g.cost_list), [len(r.cost_list) for r in members], len(tr.project.cost_list)), None)
    if spec.get("appended") is not None and tr.out.ok:
        check_appended(res, spec, False)
    res.nontrivial = tot > 0 and n >= 2
    return C.finish(res, tr)
