"""Build real pDESy objects from the pure-data model of a ScenarioSpec."""
import datetime

from . import env, seams


class Built(object):
    pass


def build(model, ranks=None, plain=False, default_resource_ids=False, share_id_objects=False):
    """Create a fresh project.  ``ranks``: {id: int} hash ranks of tasks/components.

    plain=True uses the unmodified pDESy classes (id()-based hashes, no observers).
    """
    M = env.setup()
    if plain:
        Task, SubTask, Component = M.bt.BaseTask, M.bst.BaseSubProjectTask, M.bc.BaseComponent
        Workflow, Organization, Product = M.bwf.BaseWorkflow, M.bo.BaseOrganization, M.bpr.BaseProduct
    else:
        c = seams.classes()
        Task, SubTask, Component = c.Task, c.SubTask, c.Component
        Workflow, Organization, Product = c.Workflow, c.Organization, c.Product
    ranks = ranks or {}
    TD = M.bt.BaseTaskDependency
    RR = M.brule.ResourcePriorityRuleMode
    WR = M.brule.WorkplacePriorityRuleMode

    tasks = []
    for tj in model["tasks"]:
        kw = dict(
            name=tj.get("name", tj["id"]),
            ID=tj["id"],
            default_work_amount=tj["work"],
            work_amount_progress_of_unit_step_time=tj.get("rate", 1.0),
            need_facility=bool(tj.get("nf", False)),
            default_progress=tj.get("dp", 0.0),
            due_time=tj.get("due", -1),
            auto_task=bool(tj.get("auto", False)),
            fixing_allocating_worker_id_list=(list(tj["fixw"]) if tj.get("fixw") is not None else None),
            fixing_allocating_facility_id_list=(list(tj["fixf"]) if tj.get("fixf") is not None else None),
        )
        if tj.get("wrule") is not None:
            kw["worker_priority_rule"] = RR(tj["wrule"])
        if tj.get("frule") is not None:
            kw["facility_priority_rule"] = RR(tj["frule"])
        if tj.get("prule") is not None:
            kw["workplace_priority_rule"] = WR(tj["prule"])
        sub = tj.get("sub")
        if sub is not None:
            kw["auto_task"] = bool(tj.get("auto", True))  # the class default of a sub-project task is auto_task=True
            t = SubTask(
                file_path=sub.get("file"),
                unit_timedelta=datetime.timedelta(seconds=sub.get("unit_s", 60)),
                read_json_file=False,
                remove_absence_time_list=bool(sub.get("remove_abs", False)),
                **kw
            )
        else:
            t = Task(**kw)
        if not plain and tj["id"] in ranks:
            t._rank = ranks[tj["id"]]
        tasks.append(t)
    # the workflow may exist (with some of its tasks registered) before the tasks are linked
    workflow = Workflow()
    listed = [tasks[i] for i in model["order"]] if model.get("order") else list(tasks)
    late = set(model.get("late_register") or [])
    if late and not model.get("assign_list"):
        workflow.extend_child_task_list([tasks[i] for i in (model.get("order") or range(len(tasks))) if i not in late])
    for (pi, si, kind) in model.get("deps", []):
        # dependency kinds as enum members, or as the plain integers the saved format holds
        kind_ = int(kind) if model.get("int_kinds") else TD(kind)
        if model.get("extend_links"):
            # (a list, or any other iterable of tasks: a generator can be walked only once)
            arg_ = (t_ for t_ in [tasks[pi]]) if (model.get("extend_iter") and (pi + si) % 2 == 0) else [tasks[pi]]
            tasks[si].extend_input_task_list(arg_, kind_)
        else:
            tasks[si].append_input_task(tasks[pi], task_dependency_mode=kind_)
    ext = []
    for n_, (si, kind, state) in enumerate(model.get("ext_preds", [])):
        # a predecessor that is not an element of this workflow (e.g. a task of another project); nobody updates it
        x = Task(name="x%d" % n_, ID="x%d" % n_, default_work_amount=1.0)
        x.state = M.bt.BaseTaskState(state)
        tasks[si].append_input_task(x, task_dependency_mode=TD(kind))
        ext.append(x)

    comps = []
    for cj in model.get("comps", []):
        ckw = {}
        if model.get("comp_ctor_tasks"):
            # the component is handed its tasks through the constructor (registered on the component side only)
            ckw["targeted_task_list"] = [tasks[i] for i, tj in enumerate(model["tasks"]) if tj.get("comp") == len(comps)]
        if model.get("comp_copies") and not ckw:
            # components made as shallow copies of one template, every setting then given per component (the copies share
            # the template's empty log lists until the first initialisation)
            import copy as _copy
            if "_ctmpl" not in model.get("_build_cache", {}):
                model.setdefault("_build_cache", {})["_ctmpl"] = Component(name="template", ID="template")
            c_ = _copy.copy(model["_build_cache"]["_ctmpl"])
            c_.name, c_.ID, c_.space_size = cj.get("name", cj["id"]), cj["id"], cj.get("size", 1.0)
            c_.parent_component_list, c_.child_component_list, c_.targeted_task_list = [], [], []
            c_.placed_workplace = None
        else:
            c_ = Component(name=cj.get("name", cj["id"]), ID=cj["id"], space_size=cj.get("size", 1.0), **ckw)
        if not plain and cj["id"] in ranks:
            c_._rank = ranks[cj["id"]]
        comps.append(c_)
    for i, cj in enumerate(model.get("comps", [])):
        if cj.get("children"):
            comps[i].extend_child_component_list([comps[k] for k in cj["children"]])
    for i, tj in enumerate(model["tasks"]):
        if tj.get("comp") is not None and not model.get("comp_ctor_tasks"):
            comps[tj["comp"]].append_targeted_task(tasks[i])
    for i, tj in enumerate(model["tasks"]):
        if tj.get("also_comp") is not None and tj.get("comp") is not None and tj["also_comp"] != tj["comp"] and not model.get("comp_ctor_tasks"):
            comps[tj["also_comp"]].append_targeted_task(tasks[i])  # a task that belongs to two components

    teams = []
    for mj in model.get("teams", []):
        workers = []
        for wj in mj.get("workers", []):
            if model.get("worker_copies"):
                # a team built from shallow copies of one template worker, every setting then given per worker (the logs
                # are not settings: the copies share the template's empty log lists until the first initialisation)
                import copy as _copy
                if "_tmpl" not in model.get("_build_cache", {}):
                    model.setdefault("_build_cache", {})["_tmpl"] = M.bw.BaseWorker("template")
                w_ = _copy.copy(model["_build_cache"]["_tmpl"])
                w_.name = wj.get("name", wj["id"])
                w_.ID = wj["id"]
                w_.team_id = None
                w_.cost_per_time = wj.get("cost", 0.0)
                w_.solo_working = bool(wj.get("solo", False))
                w_.workamount_skill_mean_map = dict(wj.get("skills", {}))
                w_.workamount_skill_sd_map = dict(wj.get("sd", {}))
                w_.facility_skill_map = dict(wj.get("fskills", {}))
                w_.absence_time_list = list(wj.get("abs", []))
                w_.main_workplace_id = "".join(list(wj["mainwp"])) if wj.get("mainwp") is not None else None
                if model.get("worker_copies") != "share_all":
                    w_.assigned_task_list = []  # ("share_all": also the template's empty assigned_task_list stays shared at first)
                w_.quality_skill_mean_map = {}
                w_.quality_skill_sd_map = {}
                workers.append(w_)
                continue
            if model.get("assign_style"):
                # the idiom of the library's own tests: construct with defaults, then fill the skill map item by item
                w_ = M.bw.BaseWorker(wj.get("name", wj["id"]), ID=(None if default_resource_ids else wj["id"]),
                                     cost_per_time=wj.get("cost", 0.0), solo_working=bool(wj.get("solo", False)),
                                     absence_time_list=list(wj.get("abs", [])))
                for k_, v_ in wj.get("skills", {}).items():
                    w_.workamount_skill_mean_map[k_] = v_
                w_.facility_skill_map = dict(wj.get("fskills", {}))
                w_.workamount_skill_sd_map = dict(wj.get("sd", {}))
                if wj.get("mainwp") is not None:
                    w_.main_workplace_id = "".join(list(wj["mainwp"]))
                workers.append(w_)
                continue
            workers.append(
                M.bw.BaseWorker(
                    name=wj.get("name", wj["id"]),
                    ID=(None if default_resource_ids else wj["id"]),  # None -> the library's default: str(uuid.uuid4())
                    cost_per_time=wj.get("cost", 0.0),
                    solo_working=bool(wj.get("solo", False)),
                    workamount_skill_mean_map=dict(wj.get("skills", {})),
                    workamount_skill_sd_map=dict(wj.get("sd", {})),
                    facility_skill_map=dict(wj.get("fskills", {})),
                    absence_time_list=list(wj.get("abs", [])),
                    # an equal but not identical string object, as for IDs read from a file
                    main_workplace_id=("".join(list(wj["mainwp"])) if wj.get("mainwp") is not None else None),
                    quality_skill_mean_map={},
                    quality_skill_sd_map={},
                    # a worker who names another team than the one that lists him (BaseTeam keeps a team_id that is set already)
                    **({"team_id": "".join(list(wj["team_id"]))} if wj.get("team_id") else {}),
                    # a worker who still names the team he came from and is handed over with add_worker (which sets team_id)
                    **({"team_id": "".join(list(wj["stale_team_id"]))} if (wj.get("stale_team_id") and mj.get("add_worker") and not wj.get("team_id")) else {})
                )
            )
        if mj.get("ctor_targets"):
            # some targets handed to the constructor: registered on the team side only (task.allocated_team_list lacks the team)
            tm = M.btm.BaseTeam(name=mj.get("name", mj["id"]), ID=mj["id"], worker_list=workers,
                                targeted_task_list=[tasks[k] for k in mj.get("targets", []) if k in mj["ctor_targets"]])
        elif mj.get("add_worker"):
            # the team is built empty and every worker joins it through the public add_worker
            tm = M.btm.BaseTeam(name=mj.get("name", mj["id"]), ID=mj["id"])
            for w_ in workers:
                tm.add_worker(w_)
        else:
            tm = M.btm.BaseTeam(name=mj.get("name", mj["id"]), ID=mj["id"], worker_list=workers)
        teams.append(tm)

    wps = []
    for pj in model.get("wps", []):
        facs = []
        for fj in pj.get("facs", []):
            facs.append(
                M.bf.BaseFacility(
                    name=fj.get("name", fj["id"]),
                    ID=(None if default_resource_ids else fj["id"]),
                    cost_per_time=fj.get("cost", 0.0),
                    solo_working=bool(fj.get("solo", False)),
                    workamount_skill_mean_map=dict(fj.get("skills", {})),
                    workamount_skill_sd_map=dict(fj.get("sd", {})),
                    absence_time_list=list(fj.get("abs", [])),
                )
            )
        wp = M.bwp.BaseWorkplace(
            name=pj.get("name", pj["id"]), ID=pj["id"], facility_list=facs, max_space_size=pj.get("cap", 1.0),
            **({"input_workplace_list": [wps[k] for k in pj["inputs"]]} if model.get("wp_ctor_inputs") and pj.get("inputs") else {})
        )
        wps.append(wp)
    for i_, mj in enumerate(model.get("teams", [])):
        if mj.get("parent") is not None:
            teams[i_].set_parent_team(teams[mj["parent"]])
    for i_, pj in enumerate(model.get("wps", [])):
        if pj.get("parent") is not None:
            wps[i_].set_parent_workplace(wps[pj["parent"]])
    # registration of targets: in the order the model asks for (default: teams then workplaces, each in list order);
    # the order decides the order of task.allocated_team_list / allocated_workplace_list
    reg = model.get("reg_order") or ([["team", i] for i in range(len(teams))] + [["wp", i] for i in range(len(wps))])
    for kind_, i_ in reg:
        if kind_ == "team":
            mj = model["teams"][i_]
            teams[i_].extend_targeted_task_list([tasks[k] for k in mj.get("targets", []) if k not in (mj.get("ctor_targets") or [])])
        else:
            wps[i_].extend_targeted_task_list([tasks[k] for k in model["wps"][i_].get("targets", [])])
    if share_id_objects or model.get("share_id_objects"):
        # main_workplace_id is the very same str object as the workplace's ID (as in `main_workplace_id=wp.ID`)
        byid = {wp_.ID: wp_.ID for wp_ in wps}
        for tm_ in teams:
            for w_ in tm_.worker_list:
                if w_.main_workplace_id in byid:
                    w_.main_workplace_id = byid[w_.main_workplace_id]
    for i, pj in enumerate(model.get("wps", [])):
        if pj.get("inputs") and not model.get("wp_ctor_inputs"):
            wps[i].extend_input_workplace_list([wps[k] for k in pj["inputs"]])

    init_dt = datetime.datetime.strptime(model.get("init_dt", "2020-04-01 08:00:00"), "%Y-%m-%d %H:%M:%S")
    if model.get("init_tz") is not None:
        init_dt = init_dt.replace(tzinfo=datetime.timezone(datetime.timedelta(hours=model["init_tz"])))
    project = M.bp.BaseProject(
        init_datetime=init_dt,
        unit_timedelta=datetime.timedelta(seconds=model.get("unit_s", 60)),
        product=Product(comps),
        organization=Organization(team_list=teams, workplace_list=wps),
        workflow=workflow,
    )
    # workflow.task_list order: the spec order (a topological order) unless the model asks for another one
    if model.get("assign_list"):
        project.workflow.task_list = listed  # the idiom of the library's own tests: parent_workflow is set lazily by initialize()
    elif late:
        project.workflow.extend_child_task_list([t for t in listed if not any(t is x for x in project.workflow.task_list)])
    else:
        project.workflow.extend_child_task_list(listed)
    model.pop("_build_cache", None)
    listed_now = list(project.workflow.task_list)
    if len(listed_now) != len(tasks) or any(not any(t is x for x in listed_now) for t in tasks):
        missing = [t.ID for t in tasks if not any(t is x for x in listed_now)]
        raise seams.SutMisbehaviour("task_not_registered_in_workflow",
                                    "tasks %s were handed to the workflow (extend_child_task_list / task_list assignment%s) but its task_list is %s"
                                    % (missing, ", some registered before the links were made" if late else "", [t.ID for t in listed_now]))
    b = Built()
    b.ext = ext
    b.project, b.tasks, b.comps, b.teams, b.wps = project, tasks, comps, teams, wps
    b.workers = [w for tm in teams for w in tm.worker_list]
    b.facs = [f for wp in wps for f in wp.facility_list]
    if default_resource_ids:
        # fixed-ID lists name the resources by the IDs they actually got
        wmap = dict(zip([wj["id"] for mj in model.get("teams", []) for wj in mj.get("workers", [])], [w.ID for w in b.workers]))
        fmap = dict(zip([fj["id"] for pj in model.get("wps", []) for fj in pj.get("facs", [])], [f.ID for f in b.facs]))
        for t_, tj in zip(tasks, model["tasks"]):
            if tj.get("fixw") is not None:
                t_.fixing_allocating_worker_id_list = [wmap.get(x, x) for x in tj["fixw"]]
            if tj.get("fixf") is not None:
                t_.fixing_allocating_facility_id_list = [fmap.get(x, x) for x in tj["fixf"]]
    return b


def identity_ranks(model):
    r = {}
    for i, tj in enumerate(model["tasks"]):
        r[tj["id"]] = i
    for i, cj in enumerate(model.get("comps", [])):
        r[cj["id"]] = i
    return r
