"""Seams the simulator owns.  Nothing in /repo is changed: all of these already exist.

S1  collaborator subclasses (named like the originals so the JSON ``type`` stays the same)
    that report the phases of the step loop to the active Recorder and can raise an
    injected fault there;
S2  task / component subclasses whose ``__hash__`` is a scheduler-assigned rank: this *is*
    the schedule (iteration order of every task/component ``set`` in the library);
S3  recording pass-through wrappers for the four ``sort_*`` names imported into base_project;
S5  in-memory ``open`` for ``base_project`` (paths starting with ``mem:``);
S7  deterministic ``uuid4`` and frozen ``datetime.now`` for the pDESy modules.
"""
import datetime as _dt
import io

from . import env

CUR = None  # the active Recorder (one simulate call at a time, single threaded)


class InjectedFault(Exception):
    """Raised by an observer at a chosen (step, phase)."""


class SutMisbehaviour(Exception):
    """The library did not build the model the scenario specifies through its public construction API (e.g. a task
    handed to the workflow is not in its task_list afterwards).  Raised by the builder; a run cannot be judged on
    a model that is not the specified one, and no property holds "for all models" if models are silently altered."""

    def __init__(self, kind, msg):
        Exception.__init__(self, msg)
        self.kind = kind


class InjectedAbort(BaseException):
    """Like InjectedFault, but outside the Exception hierarchy (as KeyboardInterrupt / SystemExit are)."""


# --------------------------------------------------------------------------- rank allocator
class _RankAlloc(object):
    def __init__(self):
        self.reset()

    def reset(self, start=1000003):
        self.next = start

    def take(self):
        r = self.next
        self.next += 1
        return r


RANKS = _RankAlloc()
# ranks handed to helper objects created by pDESy itself (the "auto" dummy tasks of
# backward_simulate); a scenario may pre-load this list so they get small ranks
HELPER_RANKS = []


class _Uuid(object):
    """Deterministic replacement of the uuid module for pDESy.model.*: a counter, or (C09 'ids' twin) seeded
    random hex strings whose lexicographic order is unrelated to creation order, as real uuid4 values are."""

    def __init__(self):
        self.n = 0
        self.rng = None

    def reset(self, random_seed=None):
        import random as _random

        self.n = 0
        self.rng = _random.Random(random_seed) if random_seed is not None else None

    def uuid4(self):
        self.n += 1
        if self.rng is not None:
            return "%032x" % self.rng.getrandbits(128)
        return "uuid-%06d" % self.n


UUID = _Uuid()


class _FrozenDT(_dt.datetime):
    @classmethod
    def now(cls, tz=None):
        return cls(2001, 1, 1, 0, 0, 0)


class _DatetimeShim(object):
    datetime = _FrozenDT
    timedelta = _dt.timedelta
    date = _dt.date


# --------------------------------------------------------------------------- memfs
MEMFS = {}
MEMFS_ENC = {}
MEMFS_MTIME = {}
_MEMFS_CLOCK = [1700000000 * 10 ** 9]


class _MemOut(io.StringIO):
    def __init__(self, path, encoding=None):
        io.StringIO.__init__(self)
        self._path = path
        self._encoding = encoding or "utf-8"

    def close(self):
        if not self.closed:
            text = self.getvalue()
            io.StringIO.close(self)
            try:
                text.encode(self._encoding)  # a text file encodes what is written to it: unencodable characters are an error
            except UnicodeEncodeError as e:
                e._verif_env = True  # the simulated file system answering the library, not a harness failure
                raise
            MEMFS[self._path] = text
            MEMFS_ENC[self._path] = self._encoding
            _MEMFS_CLOCK[0] += 1000003  # the simulated file system's clock: every write is later than the one before
            MEMFS_MTIME[self._path] = _MEMFS_CLOCK[0]


def memfs_open(path, mode="r", encoding=None, **kw):
    if isinstance(path, str) and path.startswith("mem:"):
        if "w" in mode:
            return _MemOut(path, encoding)
        if path not in MEMFS:
            raise FileNotFoundError(path)
        text = MEMFS[path]
        enc_w, enc_r = MEMFS_ENC.get(path, "utf-8"), encoding or "utf-8"
        if enc_w != enc_r:
            text = text.encode(enc_w).decode(enc_r)
        return io.StringIO(text)
    return open(path, mode, encoding=encoding, **kw)


def _is_mem(path):
    return isinstance(path, str) and path.startswith("mem:")


class _MemPath(object):
    """os.path for a module of the library under test: answers for files of the simulated file system, else the real os.path."""

    def __getattr__(self, name):
        import os
        return getattr(os.path, name)

    def abspath(self, path):
        import os
        return path if _is_mem(path) else os.path.abspath(path)

    realpath = normpath = abspath

    def exists(self, path):
        import os
        return path in MEMFS if _is_mem(path) else os.path.exists(path)

    isfile = exists

    def getsize(self, path):
        return _OS.stat(path).st_size

    def getmtime(self, path):
        return _OS.stat(path).st_mtime


class _MemOs(object):
    """The os module as a library module sees it (only installed where a library module imports os at all)."""

    path = _MemPath()

    def __getattr__(self, name):
        import os
        return getattr(os, name)

    def stat(self, path, *a, **k):
        import os
        if not _is_mem(path):
            return os.stat(path, *a, **k)
        if path not in MEMFS:
            raise FileNotFoundError(2, "No such file or directory", path)
        size = len(MEMFS[path].encode(MEMFS_ENC.get(path, "utf-8")))
        ns = MEMFS_MTIME.get(path, _MEMFS_CLOCK[0])
        return os.stat_result((0o100644, 1, 1, 1, 0, 0, size, ns // 10 ** 9, ns // 10 ** 9, ns // 10 ** 9,
                               ns / 1e9, ns / 1e9, ns / 1e9, ns, ns, ns))

    def remove(self, path, *a, **k):
        import os
        if not _is_mem(path):
            return os.remove(path, *a, **k)
        if path not in MEMFS:
            raise FileNotFoundError(2, "No such file or directory", path)
        del MEMFS[path]


_OS = _MemOs()


# --------------------------------------------------------------------------- classes
_CLS = None


def classes():
    """Create (once) the harness subclasses of the pDESy classes of the working tree."""
    global _CLS
    if _CLS is not None:
        return _CLS
    M = env.setup()

    # ---- S2: ranked tasks / components -------------------------------------------------
    class BaseTask(M.bt.BaseTask):  # noqa: N801  (name must stay "BaseTask")
        def __init__(self, *a, **k):
            self._rank = HELPER_RANKS.pop(0) if HELPER_RANKS else RANKS.take()
            M.bt.BaseTask.__init__(self, *a, **k)

        def __hash__(self):
            return self._rank

    class BaseSubProjectTask(M.bst.BaseSubProjectTask):  # noqa: N801
        def __init__(self, *a, **k):
            self._rank = RANKS.take()
            M.bst.BaseSubProjectTask.__init__(self, *a, **k)

        def __hash__(self):
            return self._rank

    class BaseComponent(M.bc.BaseComponent):  # noqa: N801
        def __init__(self, *a, **k):
            self._rank = RANKS.take()
            M.bc.BaseComponent.__init__(self, *a, **k)

        def __hash__(self):
            return self._rank

        def set_placed_workplace(self, placed_workplace, set_to_all_children=True):
            r = CUR
            if r is not None:
                r.on_move_enter(self, placed_workplace)
            try:
                return M.bc.BaseComponent.set_placed_workplace(
                    self, placed_workplace, set_to_all_children=set_to_all_children
                )
            finally:
                if r is not None:
                    r.on_move_exit()

    # ---- S1: observed collaborators ----------------------------------------------------
    class BaseWorkflow(M.bwf.BaseWorkflow):  # noqa: N801
        def initialize(self, state_info=True, log_info=True):
            r = CUR
            if r is not None and r.wf is self:
                r.in_init += 1
            try:
                return M.bwf.BaseWorkflow.initialize(
                    self, state_info=state_info, log_info=log_info
                )
            finally:
                if r is not None and r.wf is self:
                    r.in_init -= 1

        def update_PERT_data(self, time):
            res = M.bwf.BaseWorkflow.update_PERT_data(self, time)
            r = CUR
            if r is not None and r.wf is self and not r.in_init and not r.own_call:
                r.phase("updated")
            return res

        def record(self, working=True):
            r = CUR
            if r is not None and r.wf is self:
                r.phase("performed", working=working)
            return M.bwf.BaseWorkflow.record(self, working)

    class BaseOrganization(M.bo.BaseOrganization):  # noqa: N801
        def add_labor_cost(self, *a, **k):
            r = CUR
            if r is not None and r.org is self:
                working = not (k.get("add_zero_to_all_workers") or k.get("add_zero_to_all_facilities"))
                r.phase("allocated", working=working)
            return M.bo.BaseOrganization.add_labor_cost(self, *a, **k)

    class BaseProduct(M.bpr.BaseProduct):  # noqa: N801
        def initialize(self, state_info=True, log_info=True):
            res = M.bpr.BaseProduct.initialize(self, state_info=state_info, log_info=log_info)
            r = CUR
            if r is not None and r.prod is self:
                r.phase("init")
            return res

        def record(self, working=True):
            res = M.bpr.BaseProduct.record(self, working)
            r = CUR
            if r is not None and r.prod is self:
                r.phase("recorded", working=working)
            return res

    class _C(object):
        pass

    c = _C()
    c.Task, c.SubTask, c.Component = BaseTask, BaseSubProjectTask, BaseComponent
    c.Workflow, c.Organization, c.Product = BaseWorkflow, BaseOrganization, BaseProduct
    _CLS = c
    return c


# --------------------------------------------------------------------------- install
_ORIG = {}


# diagnosis aid (C10): when set to a set of absence steps, the FIFO task rule is evaluated by the
# harness with READY entries *at those steps* not counted.  Never set during a deciding run.
FIFO_NEUTRAL = None


def _wrap_sort(name, fn):
    def wrapper(lst, *a, **k):
        r = CUR
        if FIFO_NEUTRAL is not None and name == "sort_task_list" and a and int(a[0]) == 4:
            ab = FIFO_NEUTRAL

            def cnt(x):
                return sum(1 for i, s in enumerate(x.state_record_list) if s.name == "READY" and i not in ab)

            return sorted(lst, key=cnt, reverse=True)
        if r is None or not r.want_sorts:
            return fn(lst, *a, **k)
        inp = list(lst)
        try:
            out = fn(lst, *a, **k)
        except Exception as e:  # SUT exception: let it propagate, but remember the call
            r.on_sort(name, inp, a, k, None, e)
            raise
        r.on_sort(name, inp, a, k, out, None)
        return out

    wrapper.__name__ = name
    wrapper._verif_wrapped = fn
    return wrapper


def install():
    """Patch the module-level seams of the pDESy working tree (idempotent)."""
    M = env.setup()
    if _ORIG:
        return
    c = classes()
    bp = M.bp
    for n in ("sort_task_list", "sort_worker_list", "sort_facility_list", "sort_workplace_list"):
        _ORIG[n] = getattr(bp, n)
        setattr(bp, n, _wrap_sort(n, _ORIG[n]))
    _ORIG["open"] = bp.__dict__.get("open")
    bp.open = memfs_open
    _ORIG["BaseTask"] = bp.BaseTask
    bp.BaseTask = c.Task
    for m in M.modules:
        if hasattr(m, "uuid"):
            m.uuid = UUID
    _ORIG["datetime"] = bp.datetime
    bp.datetime = _DatetimeShim
    import os as _os
    for m in M.modules:
        if getattr(m, "os", None) is _os:
            m.os = _OS


def uninstall():
    """Restore the module-level names (used by the observer-transparency self-test)."""
    M = env.setup()
    if not _ORIG:
        return
    bp = M.bp
    for n in ("sort_task_list", "sort_worker_list", "sort_facility_list", "sort_workplace_list"):
        setattr(bp, n, _ORIG[n])
    if _ORIG["open"] is None:
        try:
            del bp.open
        except AttributeError:
            pass
    else:
        bp.open = _ORIG["open"]
    bp.BaseTask = _ORIG["BaseTask"]
    bp.datetime = _ORIG["datetime"]
    import uuid as _uuid

    import os as _os
    for m in M.modules:
        if hasattr(m, "uuid"):
            m.uuid = _uuid
        if getattr(m, "os", None) is _OS:
            m.os = _os
    _ORIG.clear()


def reset_run_state(seed=0):
    """Reset every per-run deterministic source before a scenario is executed."""
    import numpy

    RANKS.reset()
    del HELPER_RANKS[:]
    UUID.reset()
    MEMFS.clear()
    MEMFS_MTIME.clear()
    _MEMFS_CLOCK[0] = 1700000000 * 10 ** 9
    numpy.random.seed(seed & 0xFFFFFFFF)
    reset_global_defaults()


def reset_global_defaults():
    """Isolation between scenarios: a previous scenario may have polluted the shared mutable default
    ``absence_time_list=[]`` of simulate()/backward_simulate() (that pollution itself is C09's business)."""
    M = env.M
    for fn in (M.bp.BaseProject.simulate, M.bp.BaseProject.backward_simulate):
        d = fn.__defaults__
        if d and any(isinstance(x, list) and x for x in d):
            fn.__defaults__ = tuple([] if isinstance(x, list) else x for x in d)


def attach(project):
    """Re-class the collaborators of ``project`` to the observed subclasses (after JSON load too)."""
    c = classes()
    M = env.M
    if isinstance(project.workflow, M.bwf.BaseWorkflow):
        project.workflow.__class__ = c.Workflow
    if isinstance(project.organization, M.bo.BaseOrganization):
        project.organization.__class__ = c.Organization
    if isinstance(project.product, M.bpr.BaseProduct):
        project.product.__class__ = c.Product


def rerank(project, ranks):
    """Re-class tasks/components to the ranked subclasses and assign ranks by ID.

    ``ranks`` maps ID -> int.  IDs not in the map keep / get an allocator rank.
    """
    c = classes()
    M = env.M
    for t in project.workflow.task_list:
        if isinstance(t, M.bst.BaseSubProjectTask):
            if t.__class__ is not c.SubTask:
                t.__class__ = c.SubTask
        elif t.__class__ is not c.Task:
            t.__class__ = c.Task
        if t.ID in ranks:
            t._rank = ranks[t.ID]
        elif not hasattr(t, "_rank"):
            t._rank = RANKS.take()
    for x in project.product.component_list:
        if x.__class__ is not c.Component:
            x.__class__ = c.Component
        if x.ID in ranks:
            x._rank = ranks[x.ID]
        elif not hasattr(x, "_rank"):
            x._rank = RANKS.take()
