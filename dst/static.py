"""Static facts of a model spec, computed from the pure data only (independent of pDESy objects)."""

TOL = 1e-10


class Static(object):
    def __init__(self, model):
        self.model = model
        self.tasks = {}
        self.tidx = {}
        self.order = []
        for i, t in enumerate(model["tasks"]):
            self.tasks[t["id"]] = t
            self.tidx[t["id"]] = i
            self.order.append(t["id"])
        self.preds = {tid: [] for tid in self.tasks}
        self.succs = {tid: [] for tid in self.tasks}
        for (a, b, k) in model.get("deps", []):
            pa, pb = self.order[a], self.order[b]
            self.preds[pb].append((pa, k))
            self.succs[pa].append((pb, k))
        self.worker = {}
        self.worker_team = {}
        self.team_targets = {}
        self.worker_order = []
        for tm in model.get("teams", []):
            self.team_targets[tm["id"]] = set(self.order[i] for i in tm["targets"])
            for w in tm["workers"]:
                self.worker[w["id"]] = w
                self.worker_team[w["id"]] = tm["id"]
                self.worker_order.append(w["id"])
        self.fac = {}
        self.fac_wp = {}
        self.wp = {}
        self.wp_targets = {}
        self.fac_order = []
        for wp in model.get("wps", []):
            self.wp[wp["id"]] = wp
            self.wp_targets[wp["id"]] = set(self.order[i] for i in wp["targets"])
            for f in wp["facs"]:
                self.fac[f["id"]] = f
                self.fac_wp[f["id"]] = wp["id"]
                self.fac_order.append(f["id"])
        self.wp_order = [wp["id"] for wp in model.get("wps", [])]
        self.wp_inputs = {}
        for wp in model.get("wps", []):
            self.wp_inputs[wp["id"]] = [self.wp_order[i] for i in wp.get("inputs", [])]
        self.comps = {}
        self.comp_order = []
        for c in model.get("comps", []):
            self.comps[c["id"]] = c
            self.comp_order.append(c["id"])
        self.children = {cid: [self.comp_order[k] for k in self.comps[cid].get("children", [])] for cid in self.comps}
        self.parents = {cid: [] for cid in self.comps}
        for cid, ch in self.children.items():
            for x in ch:
                self.parents[x].append(cid)
        self.comp_tasks = {cid: [] for cid in self.comps}
        self.task_comp = {}
        for t in model["tasks"]:
            if t.get("comp") is not None:
                cid = self.comp_order[t["comp"]]
                self.comp_tasks[cid].append(t["id"])
                self.task_comp[t["id"]] = cid
            if t.get("also_comp") is not None and t.get("comp") is not None and t["also_comp"] != t["comp"]:
                # the task was appended to a second component afterwards: both list it, the task names the later one
                cid = self.comp_order[t["also_comp"]]
                self.comp_tasks[cid].append(t["id"])
                self.task_comp[t["id"]] = cid

    # ---- task facts
    def name(self, tid):
        t = self.tasks[tid]
        return t.get("name", t["id"])

    def auto(self, tid):
        t = self.tasks[tid]
        if t.get("sub") is not None:
            return bool(t.get("auto", True))
        return bool(t.get("auto", False))

    def nf(self, tid):
        return bool(self.tasks[tid].get("nf", False))

    def exempt(self, tid):
        return self.tasks[tid].get("dp", 0.0) >= 1.0 - TOL

    def initial_remaining(self, tid):
        t = self.tasks[tid]
        return t["work"] * (1.0 - t.get("dp", 0.0))

    def rate(self, tid):
        return self.tasks[tid].get("rate", 1.0)

    # ---- resources
    def w_skill(self, wid, tid):
        return self.worker[wid].get("skills", {}).get(self.name(tid), 0.0)

    def f_skill(self, fid, tid):
        return self.fac[fid].get("skills", {}).get(self.name(tid), 0.0)

    def w_fskill(self, wid, fid):
        f = self.fac[fid]
        return self.worker[wid].get("fskills", {}).get(f.get("name", f["id"]), 0.0)

    def eligible_w(self, wid, tid):
        """positive skill, team targets the task, fixed worker IDs respected"""
        if self.w_skill(wid, tid) <= TOL:
            return False
        if tid not in self.team_targets[self.worker_team[wid]]:
            return False
        fx = self.tasks[tid].get("fixw")
        if fx is not None and wid not in fx:
            return False
        return True

    def eligible_f(self, fid, tid):
        if self.f_skill(fid, tid) <= TOL:
            return False
        if tid not in self.wp_targets[self.fac_wp[fid]]:
            return False
        fx = self.tasks[tid].get("fixf")
        if fx is not None and fid not in fx:
            return False
        return True

    def w_absent(self, wid, k):
        return k in self.worker[wid].get("abs", [])

    def f_absent(self, fid, k):
        return k in self.fac[fid].get("abs", [])

    def top_components(self):
        return [c for c in self.comp_order if not self.parents[c]]

    def descendants(self, cid):
        out = []
        stack = list(self.children[cid])
        while stack:
            x = stack.pop()
            out.append(x)
            stack.extend(self.children[x])
        return out

    def ancestors(self, cid):
        out = []
        stack = list(self.parents[cid])
        while stack:
            x = stack.pop()
            out.append(x)
            stack.extend(self.parents[x])
        return out
