"""Greedy delta-debugging of a ScenarioSpec while the same violation key persists."""
import copy


# ----------------------------------------------------------------------------- model surgery
def drop_task(m, i):
    m = copy.deepcopy(m)
    del m["tasks"][i]
    m["deps"] = [[a - (a > i), b - (b > i), k] for (a, b, k) in m["deps"] if a != i and b != i]
    for tm in m.get("teams", []):
        tm["targets"] = [x - (x > i) for x in tm["targets"] if x != i]
        if tm.get("ctor_targets"):
            tm["ctor_targets"] = [x - (x > i) for x in tm["ctor_targets"] if x != i]
    for wp in m.get("wps", []):
        wp["targets"] = [x - (x > i) for x in wp["targets"] if x != i]
    if m.get("order"):
        m["order"] = [x - (x > i) for x in m["order"] if x != i]
    return m


def drop_comp(m, i):
    m = copy.deepcopy(m)
    del m["comps"][i]
    for c in m["comps"]:
        c["children"] = [x - (x > i) for x in c.get("children", []) if x != i]
    for t in m["tasks"]:
        if t.get("comp") is not None:
            if t["comp"] == i:
                if t.get("nf"):
                    return None
                t.pop("comp")
            elif t["comp"] > i:
                t["comp"] -= 1
    return m


def _fix_reg(m):
    for g in m.get("teams", []) + m.get("wps", []):
        g.pop("parent", None)
    if m.get("reg_order"):
        nt, nw = len(m.get("teams", [])), len(m.get("wps", []))
        m["reg_order"] = None
        m.pop("reg_order")
    return m


def drop_wp(m, i):
    m = copy.deepcopy(m)
    _fix_reg(m)
    del m["wps"][i]
    for wp in m["wps"]:
        wp["inputs"] = [x - (x > i) for x in wp.get("inputs", []) if x != i]
    return m


def model_candidates(m):
    """Yield simpler models (each a fresh copy)."""
    n = len(m["tasks"])
    if n > 1:
        for i in reversed(range(n)):
            yield drop_task(m, i)
    for i in reversed(range(len(m.get("deps", [])))):
        c = copy.deepcopy(m)
        del c["deps"][i]
        yield c
    for i in reversed(range(len(m.get("comps", [])))):
        c = drop_comp(m, i)
        if c is not None:
            yield c
    for i in reversed(range(len(m.get("wps", [])))):
        yield drop_wp(m, i)
    for ti in reversed(range(len(m.get("teams", [])))):
        if len(m["teams"]) > 1:
            c = copy.deepcopy(m)
            _fix_reg(c)
            del c["teams"][ti]
            yield c
        for wi in reversed(range(len(m["teams"][ti]["workers"]))):
            if len(m["teams"][ti]["workers"]) > 1:
                c = copy.deepcopy(m)
                del c["teams"][ti]["workers"][wi]
                yield c
    for pi in range(len(m.get("wps", []))):
        for fi in reversed(range(len(m["wps"][pi]["facs"]))):
            c = copy.deepcopy(m)
            del c["wps"][pi]["facs"][fi]
            yield c
        if m["wps"][pi].get("inputs"):
            c = copy.deepcopy(m)
            c["wps"][pi]["inputs"] = []
            yield c
    if m.get("order"):
        c = copy.deepcopy(m)
        c.pop("order")
        yield c
    for fld in ("assign_list", "reg_order", "assign_style"):
        if m.get(fld):
            c = copy.deepcopy(m)
            c.pop(fld)
            yield c
    for ti, tm in enumerate(m.get("teams", [])):
        if tm.get("ctor_targets"):
            c = copy.deepcopy(m)
            c["teams"][ti].pop("ctor_targets")
            yield c
    for i, t in enumerate(m["tasks"]):
        if t.get("name") is not None:
            c = copy.deepcopy(m)
            c["tasks"][i].pop("name")
            yield c
    # simplify attributes
    for i, (a, b, k) in enumerate(m.get("deps", [])):
        if k != 0:
            c = copy.deepcopy(m)
            c["deps"][i][2] = 0
            yield c
    for i, t in enumerate(m["tasks"]):
        for key in ("dp", "due", "fixw", "fixf", "wrule", "frule", "prule", "auto", "nf", "comp", "rate"):
            if key in t:
                if key == "comp" and t.get("nf"):
                    continue
                c = copy.deepcopy(m)
                c["tasks"][i].pop(key)
                yield c
        if t["work"] != 1.0:
            c = copy.deepcopy(m)
            c["tasks"][i]["work"] = 1.0
            yield c
    for ci, cc in enumerate(m.get("comps", [])):
        if cc.get("children"):
            c = copy.deepcopy(m)
            c["comps"][ci]["children"] = []
            yield c
        if cc.get("size", 1.0) != 1.0:
            c = copy.deepcopy(m)
            c["comps"][ci]["size"] = 1.0
            yield c
    for ti, tm in enumerate(m.get("teams", [])):
        for wi, w in enumerate(tm["workers"]):
            for key in ("abs", "solo", "mainwp"):
                if w.get(key):
                    c = copy.deepcopy(m)
                    c["teams"][ti]["workers"][wi].pop(key)
                    yield c
            if w.get("cost", 0.0) != 0.0:
                c = copy.deepcopy(m)
                c["teams"][ti]["workers"][wi]["cost"] = 0.0
                yield c
            for sk in list(w.get("skills", {})):
                c = copy.deepcopy(m)
                del c["teams"][ti]["workers"][wi]["skills"][sk]
                yield c
                if w["skills"][sk] != 1.0:
                    c = copy.deepcopy(m)
                    c["teams"][ti]["workers"][wi]["skills"][sk] = 1.0
                    yield c
            if len(w.get("abs", [])) > 1:
                for ai in range(len(w["abs"])):
                    c = copy.deepcopy(m)
                    del c["teams"][ti]["workers"][wi]["abs"][ai]
                    yield c
    for pi, wp in enumerate(m.get("wps", [])):
        if wp.get("cap", 1.0) != 1.0:
            c = copy.deepcopy(m)
            c["wps"][pi]["cap"] = 1.0
            yield c
        for fi, f in enumerate(wp["facs"]):
            for key in ("abs", "solo"):
                if f.get(key):
                    c = copy.deepcopy(m)
                    c["wps"][pi]["facs"][fi].pop(key)
                    yield c
            if f.get("cost", 0.0) != 0.0:
                c = copy.deepcopy(m)
                c["wps"][pi]["facs"][fi]["cost"] = 0.0
                yield c


def cfg_candidates(cfg):
    if cfg.get("absence"):
        c = dict(cfg)
        c["absence"] = []
        yield c
        if len(cfg["absence"]) > 1:
            for i in range(len(cfg["absence"])):
                c = dict(cfg)
                c["absence"] = cfg["absence"][:i] + cfg["absence"][i + 1:]
                yield c
    if cfg.get("rule", 0) != 0:
        c = dict(cfg)
        c["rule"] = 0
        yield c
    if cfg.get("auto_flag"):
        c = dict(cfg)
        c["auto_flag"] = False
        yield c


def fix_ranks(spec):
    """Keep ranks consistent with the (possibly reduced) model."""
    if "ranks" not in spec or spec["ranks"] is None:
        return
    ids = [t["id"] for t in spec["model"]["tasks"]] + [c["id"] for c in spec["model"].get("comps", [])]
    spec["ranks"] = {i: spec["ranks"][i] for i in ids if i in spec["ranks"]}


def generic_candidates(spec):
    """Candidates for the common spec layout {"model", "ranks", "cfg", ...}."""
    if "model" in spec:
        for m in model_candidates(spec["model"]):
            c = dict(spec)
            c["model"] = m
            fix_ranks(c)
            yield c
    if "cfg" in spec:
        for cfg in cfg_candidates(spec["cfg"]):
            c = dict(spec)
            c["cfg"] = cfg
            yield c
    if spec.get("ranks"):
        ids = [t["id"] for t in spec["model"]["tasks"]]
        ident = dict(spec["ranks"])
        for i, tid in enumerate(ids):
            ident[tid] = i
        for i, cc in enumerate(spec["model"].get("comps", [])):
            ident[cc["id"]] = i
        if ident != spec["ranks"]:
            c = dict(spec)
            c["ranks"] = ident
            yield c


def shrink(spec, still_fails, extra_candidates=None, budget=400, max_s=120.0):
    """Return a (locally) minimal spec for which still_fails(spec) is true.  Bounded by evaluations and by wall-clock time
    (a tree on which calls hang makes every evaluation expensive; a less minimal replay is still a replay)."""
    import time as _time
    t_end = _time.time() + max_s
    evals = 0
    progress = True
    while progress and evals < budget and _time.time() < t_end:
        progress = False
        gens = [generic_candidates(spec)]
        if extra_candidates is not None:
            gens.insert(0, extra_candidates(spec))
        for g in gens:
            for cand in g:
                if evals >= budget or _time.time() > t_end:
                    break
                evals += 1
                try:
                    ok = still_fails(cand)
                except Exception:
                    ok = False
                if ok:
                    spec = cand
                    progress = True
                    break
            if progress:
                break
    return spec, evals
