"""Run every quick check against every kept seeded change; update meta.json (caught_by) and print a matrix."""
import json, os, sys, glob
sys.path.insert(0, os.path.dirname(os.path.abspath(__file__)))
import tools_seeded as T
names = sorted(os.path.basename(d) for d in glob.glob(os.path.join(T.VERIF, "seeded", "C*")))
only = sys.argv[1:] or names
for name in only:
    dst = os.path.join(T.VERIF, "seeded", name)
    r = T.run_checks(dst, None)
    meta = json.load(open(os.path.join(dst, "meta.json")))
    res = meta.get("check_results", {})
    for k, x in r.items():
        res[k] = {"exit": x["exit"], "keys": x["keys"][:6]}
    meta["check_results"] = res
    meta["caught_by"] = sorted(k for k, x in res.items() if x["exit"] == 1)
    meta["harness_errors"] = sorted(k for k, x in res.items() if x["exit"] == 2)
    json.dump(meta, open(os.path.join(dst, "meta.json"), "w"), indent=1)
    print(name, "caught_by", meta["caught_by"], "harness_errors", meta["harness_errors"], flush=True)
