"""Stand-alone reproduction: a facility-needing task with facility_priority_rule=HSV makes simulate() raise
KeyError('name') (sort_facility_list is called without the task name its HSV key needs)."""
import sys
sys.path.insert(0, sys.argv[1] if len(sys.argv) > 1 else "/repo")
import warnings; warnings.filterwarnings("ignore")
from pDESy.model.base_project import BaseProject
from pDESy.model.base_task import BaseTask
from pDESy.model.base_component import BaseComponent
from pDESy.model.base_product import BaseProduct
from pDESy.model.base_team import BaseTeam
from pDESy.model.base_worker import BaseWorker
from pDESy.model.base_facility import BaseFacility
from pDESy.model.base_workplace import BaseWorkplace
from pDESy.model.base_workflow import BaseWorkflow
from pDESy.model.base_organization import BaseOrganization
from pDESy.model.base_priority_rule import ResourcePriorityRuleMode

t = BaseTask("t", default_work_amount=2.0, need_facility=True, facility_priority_rule=ResourcePriorityRuleMode.HSV)
c = BaseComponent("c"); c.append_targeted_task(t)
f_lo = BaseFacility("f_lo", workamount_skill_mean_map={"t": 0.5})
f_hi = BaseFacility("f_hi", workamount_skill_mean_map={"t": 2.0})
wp = BaseWorkplace("wp", facility_list=[f_lo, f_hi], max_space_size=1.0); wp.extend_targeted_task_list([t])
w = BaseWorker("w", workamount_skill_mean_map={"t": 1.0}, facility_skill_map={"f_lo": 1.0, "f_hi": 1.0})
team = BaseTeam("team", worker_list=[w]); team.extend_targeted_task_list([t])
p = BaseProject(product=BaseProduct([c]), workflow=BaseWorkflow([t]), organization=BaseOrganization([team], [wp]))
try:
    p.simulate(max_time=20)
except KeyError as e:
    print("simulate() raised KeyError", e); sys.exit(1)
print("status", int(p.status), "time", p.time, "facility used at step 0:", t.allocated_facility_id_record[0] == [f_hi.ID] and "f_hi (highest skill)" or "f_lo")
sys.exit(0 if t.allocated_facility_id_record[0] == [f_hi.ID] else 1)
