"""Stand-alone reproduction: with perform_auto_task_while_absence_time=False an automatic task still turns
WORKING during a project-wide absence step.  A zero-work automatic task thereby 'finishes during' the absence
step, and an SS successor is released one working step early, so simulate(absence=L)+remove_absence_time_list()
differs from simulate()."""
import sys
sys.path.insert(0, sys.argv[1] if len(sys.argv) > 1 else "/repo")
import warnings; warnings.filterwarnings("ignore")
from pDESy.model.base_project import BaseProject
from pDESy.model.base_task import BaseTask, BaseTaskDependency
from pDESy.model.base_team import BaseTeam
from pDESy.model.base_worker import BaseWorker
from pDESy.model.base_workflow import BaseWorkflow
from pDESy.model.base_organization import BaseOrganization

def make():
    a = BaseTask("a", default_work_amount=1.0, auto_task=True)
    b = BaseTask("b", default_work_amount=1.0)
    b.append_input_task(a, task_dependency_mode=BaseTaskDependency.SS)
    w = BaseWorker("w", workamount_skill_mean_map={"b": 1.0})
    team = BaseTeam("team", worker_list=[w]); team.extend_targeted_task_list([a, b])
    return BaseProject(workflow=BaseWorkflow([a, b]), organization=BaseOrganization([team])), b

p0, b0 = make(); p0.simulate()
p1, b1 = make(); p1.simulate(absence_time_list=[0]); p1.remove_absence_time_list()
s0 = [int(s) for s in b0.state_record_list]; s1 = [int(s) for s in b1.state_record_list]
print("without absence: time", p0.time, "b:", s0)
print("absence at 0, removed: time", p1.time, "b:", s1)
sys.exit(0 if (p0.time, s0) == (p1.time, s1) else 1)
