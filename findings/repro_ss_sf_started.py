"""Stand-alone reproduction (no harness): SS successor never READY / SF successor never FINISHED
once the predecessor has already FINISHED.  Run: /venv/bin/python findings/repro_ss_sf_started.py [repo]"""
import sys
sys.path.insert(0, sys.argv[1] if len(sys.argv) > 1 else "/repo")
import warnings; warnings.filterwarnings("ignore")
from pDESy.model.base_project import BaseProject
from pDESy.model.base_task import BaseTask, BaseTaskDependency
from pDESy.model.base_team import BaseTeam
from pDESy.model.base_worker import BaseWorker
from pDESy.model.base_workflow import BaseWorkflow
from pDESy.model.base_organization import BaseOrganization

def project(kind, work_a, work_b):
    a = BaseTask("a", default_work_amount=work_a)
    b = BaseTask("b", default_work_amount=work_b)
    b.append_input_task(a, task_dependency_mode=kind)
    wa = BaseWorker("wa", workamount_skill_mean_map={"a": 1.0})
    wb = BaseWorker("wb", workamount_skill_mean_map={"b": 1.0})
    team = BaseTeam("team", worker_list=[wa, wb]); team.extend_targeted_task_list([a, b])
    p = BaseProject(workflow=BaseWorkflow([a, b]), organization=BaseOrganization([team]))
    p.simulate(max_time=30)
    return p, a, b

bad = 0
# SS: a needs a single step, so it is WORKING only during step 0 and FINISHED from the update of step 1 on.
p, a, b = project(BaseTaskDependency.SS, 1.0, 1.0)
print("SS: status", int(p.status), "time", p.time, "b states", [int(s) for s in b.state_record_list][:6])
bad += int(p.status) != 1
# SF: b reaches zero at the same step as a (or later): a is FINISHED when b's finish gate is evaluated.
p, a, b = project(BaseTaskDependency.SF, 1.0, 2.0)
print("SF: status", int(p.status), "time", p.time, "b states", [int(s) for s in b.state_record_list][:6])
bad += int(p.status) != 1
sys.exit(1 if bad else 0)
