"""Stand-alone reproduction: a task whose default_progress is 1.0 is FINISHED from the start of a normal run, but when
the project is simulated again with initialize_log_info=False (append to the existing logs) the same task starts as
NONE/READY with zero remaining work and has to wait for a worker before it can 'finish'."""
import sys
sys.path.insert(0, sys.argv[1] if len(sys.argv) > 1 else "/repo")
import warnings; warnings.filterwarnings("ignore")
from pDESy.model.base_project import BaseProject
from pDESy.model.base_task import BaseTask
from pDESy.model.base_team import BaseTeam
from pDESy.model.base_worker import BaseWorker
from pDESy.model.base_workflow import BaseWorkflow
from pDESy.model.base_organization import BaseOrganization
done = BaseTask("done", default_work_amount=3.0, default_progress=1.0)
todo = BaseTask("todo", default_work_amount=2.0)
w = BaseWorker("w", workamount_skill_mean_map={"todo": 1.0})
team = BaseTeam("team", worker_list=[w]); team.extend_targeted_task_list([done, todo])
p = BaseProject(workflow=BaseWorkflow([done, todo]), organization=BaseOrganization([team]))
p.simulate(max_time=20)
first = [int(s) for s in done.state_record_list]
p.simulate(max_time=40, initialize_log_info=False)      # second run, appended to the logs
second = [int(s) for s in done.state_record_list][len(first):]
print("first run :", first, "status", int(p.status))
print("second run:", second[:6], "... status", int(p.status), "time", p.time)
ok = all(s == -1 for s in second) and int(p.status) == 1
print("OK" if ok else "DEFECT: the completed task is not FINISHED from the start of the appended run")
sys.exit(0 if ok else 1)
