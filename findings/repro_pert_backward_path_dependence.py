"""Stand-alone reproduction: in networks that mix FS with FF/SF links the backward pass of update_PERT_data keeps
a value derived from an *intermediate* value of a successor (a stored pair is only ever replaced by a 'smaller' one),
so lst/lft of a task depend on the order in which a set of tasks is iterated, i.e. on memory addresses."""
import sys
sys.path.insert(0, sys.argv[1] if len(sys.argv) > 1 else "/repo")
import warnings; warnings.filterwarnings("ignore")
from pDESy.model.base_task import BaseTask, BaseTaskDependency as D
from pDESy.model.base_workflow import BaseWorkflow
res = set()
for pad in range(300):
    junk = [object() for _ in range(pad)]
    t1 = BaseTask("t1", default_work_amount=1.0); t3 = BaseTask("t3", default_work_amount=2.0)
    keep = [BaseTask("x") for _ in range(pad % 7)]
    t4 = BaseTask("t4", default_work_amount=1.0); t6 = BaseTask("t6", default_work_amount=3.3)
    t7 = BaseTask("t7", default_work_amount=1.0); t9 = BaseTask("t9", default_work_amount=0.1); t10 = BaseTask("t10", default_work_amount=2.0)
    t3.append_input_task(t1, D.FS); t4.append_input_task(t3, D.FF); t6.append_input_task(t3, D.SF)
    t7.append_input_task(t4, D.FS); t9.append_input_task(t4, D.FS); t10.append_input_task(t9, D.FS)
    wf = BaseWorkflow([t1, t3, t4, t6, t7, t9, t10]); wf.initialize()
    res.add((round(t1.lst, 9), round(t1.lft, 9)))
print("distinct (lst, lft) of t1 over 300 rebuilds:", sorted(res))
sys.exit(0 if len(res) == 1 else 1)
