"""Stand-alone reproduction: a component that carries two READY tasks is placed once per task in the same
allocation pass; the first task gets a facility of the first workplace, then the component is moved on,
so the task works with a facility of a workplace where its component is not placed."""
import sys
sys.path.insert(0, sys.argv[1] if len(sys.argv) > 1 else "/repo")
import warnings; warnings.filterwarnings("ignore")
from pDESy.model.base_project import BaseProject
from pDESy.model.base_task import BaseTask
from pDESy.model.base_component import BaseComponent
from pDESy.model.base_product import BaseProduct
from pDESy.model.base_team import BaseTeam
from pDESy.model.base_worker import BaseWorker
from pDESy.model.base_facility import BaseFacility
from pDESy.model.base_workplace import BaseWorkplace
from pDESy.model.base_workflow import BaseWorkflow
from pDESy.model.base_organization import BaseOrganization

t0 = BaseTask("t0", ID="t0", default_work_amount=1.0, need_facility=True)
t2 = BaseTask("t2", ID="t2", default_work_amount=1.0)
c0 = BaseComponent("c0", ID="c0"); c0.extend_targeted_task_list([t0, t2])
f0 = BaseFacility("f0", ID="f0", workamount_skill_mean_map={"t0": 0.5, "t2": 1.0})
f1 = BaseFacility("f1", ID="f1", workamount_skill_mean_map={"t0": 1.0})
p0 = BaseWorkplace("p0", ID="p0", facility_list=[f0], max_space_size=1.0); p0.extend_targeted_task_list([t0, t2])
p1 = BaseWorkplace("p1", ID="p1", facility_list=[f1], max_space_size=2.0); p1.extend_targeted_task_list([t0, t2])
w0 = BaseWorker("w0", ID="w0", workamount_skill_mean_map={"t0": 1.0}, facility_skill_map={"f0": 1.0, "f1": 1.0})
team = BaseTeam("team", worker_list=[w0]); team.extend_targeted_task_list([t0, t2])
p = BaseProject(product=BaseProduct([c0]), workflow=BaseWorkflow([t0, t2]), organization=BaseOrganization([team], [p0, p1]))
p.simulate(max_time=10)
fac = t0.allocated_facility_id_record[0]; place = c0.placed_workplace_id_record[0]
print("step 0: t0 works with facility", fac, "| component c0 is placed at", place)
ok = (fac == ["f1"] and place == "p1") or (fac == ["f0"] and place == "p0")
print("OK" if ok else "DEFECT")
sys.exit(0 if ok else 1)
