"""Stand-alone reproduction: update_PERT_data(t) keeps latest start/finish values of earlier calls for tasks
that have successors, so after the first step slack (lst - est) goes negative and TSLACK priorities are wrong."""
import sys
sys.path.insert(0, sys.argv[1] if len(sys.argv) > 1 else "/repo")
import warnings; warnings.filterwarnings("ignore")
from pDESy.model.base_task import BaseTask
from pDESy.model.base_workflow import BaseWorkflow

a = BaseTask("a", default_work_amount=2.0); b = BaseTask("b", default_work_amount=3.0)
b.append_input_task(a)
wf = BaseWorkflow([a, b]); wf.initialize()
print("t=0:", (a.est, a.eft, a.lst, a.lft), (b.est, b.eft, b.lst, b.lft), "CPL", wf.critical_path_length)
wf.update_PERT_data(4)        # nothing progressed (e.g. everybody was absent): everything shifts by 4
print("t=4:", (a.est, a.eft, a.lst, a.lft), (b.est, b.eft, b.lst, b.lft), "CPL", wf.critical_path_length)
ok = (a.lst, a.lft) == (4.0, 6.0) and a.lst - a.est >= 0
print("OK" if ok else "DEFECT: a.lst/a.lft are still the values of t=0; slack of a = %r" % (a.lst - a.est))
sys.exit(0 if ok else 1)
