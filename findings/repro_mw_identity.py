"""Stand-alone reproduction: the MW worker rule compares main_workplace_id with the target workplace ID by
identity ('is not').  An equal ID string that is not the same object (e.g. read from a file) is not recognised,
so the worker whose main workplace is the target is not put first."""
import sys
sys.path.insert(0, sys.argv[1] if len(sys.argv) > 1 else "/repo")
import warnings; warnings.filterwarnings("ignore")
from pDESy.model.base_worker import BaseWorker
from pDESy.model.base_priority_rule import sort_worker_list, ResourcePriorityRuleMode
other = BaseWorker("other", main_workplace_id=None, workamount_skill_mean_map={"t": 1.0})
home = BaseWorker("home", main_workplace_id="".join(["work", "place-1"]), workamount_skill_mean_map={"t": 1.0, "u": 1.0})
target = "".join(["workplace", "-1"])
assert home.main_workplace_id == target and home.main_workplace_id is not target
out = sort_worker_list([other, home], ResourcePriorityRuleMode.MW, name="t", workplace_id=target)
print([w.name for w in out])
sys.exit(0 if out[0] is home else 1)
