"""Stand-alone reproductions of the log-edit defects (insert_/remove_absence_time_list).
Usage: repro_log_edit.py <case> [repo]   cases: step0 | beyond_remove | dup_remove | beyond_insert | workplace | subproject"""
import sys
case = sys.argv[1]
sys.path.insert(0, sys.argv[2] if len(sys.argv) > 2 else "/repo")
import warnings; warnings.filterwarnings("ignore")
import os, tempfile
from pDESy.model.base_project import BaseProject
from pDESy.model.base_task import BaseTask
from pDESy.model.base_subproject_task import BaseSubProjectTask
from pDESy.model.base_component import BaseComponent
from pDESy.model.base_product import BaseProduct
from pDESy.model.base_team import BaseTeam
from pDESy.model.base_worker import BaseWorker
from pDESy.model.base_facility import BaseFacility
from pDESy.model.base_workplace import BaseWorkplace
from pDESy.model.base_workflow import BaseWorkflow
from pDESy.model.base_organization import BaseOrganization

def make(extra_tasks=()):
    a = BaseTask("a", default_work_amount=4.0)
    c = BaseComponent("c"); c.append_targeted_task(a)
    f = BaseFacility("f", workamount_skill_mean_map={"a": 1.0})
    wp = BaseWorkplace("wp", facility_list=[f]); wp.extend_targeted_task_list([a])
    w = BaseWorker("w", cost_per_time=1.0, workamount_skill_mean_map={"a": 1.0}, facility_skill_map={"f": 1.0})
    team = BaseTeam("team", worker_list=[w]); team.extend_targeted_task_list([a])
    p = BaseProject(product=BaseProduct([c]), workflow=BaseWorkflow([a] + list(extra_tasks)),
                    organization=BaseOrganization([team], [wp]))
    return p, a, w, wp

def lengths(p):
    t = p.workflow.task_list
    wp = p.organization.workplace_list[0]
    return {"time": p.time, "project.cost": len(p.cost_list), "task.state": [len(x.state_record_list) for x in t],
            "worker.state": len(p.organization.team_list[0].worker_list[0].state_record_list),
            "team.cost": len(p.organization.team_list[0].cost_list), "workplace.placed": len(wp.placed_component_id_record)}

def aligned(L):
    vals = set([L["time"], L["project.cost"], L["worker.state"], L["team.cost"], L["workplace.placed"]] + L["task.state"])
    return len(vals) == 1

p, a, w, wp = make()
ok = True
if case == "step0":
    p.simulate()
    try:
        p.insert_absence_time_list([0]); print(lengths(p)); ok = aligned(lengths(p))
    except TypeError as e:
        print("insert_absence_time_list([0]) raised TypeError:", e); ok = False
elif case == "beyond_remove":
    p.simulate(absence_time_list=[1, 50]); print("before", lengths(p)); p.remove_absence_time_list(); L = lengths(p); print("after ", L); ok = aligned(L)
elif case == "dup_remove":
    p.simulate(absence_time_list=[1, 1]); print("before", lengths(p)); p.remove_absence_time_list(); L = lengths(p); print("after ", L); ok = aligned(L) and L["time"] == 4
elif case == "beyond_insert":
    p.simulate(); print("before", lengths(p)); p.insert_absence_time_list([1, 9]); L = lengths(p); print("after ", L); ok = aligned(L)
elif case == "workplace":
    p.simulate(absence_time_list=[1]); print("before", lengths(p)); p.remove_absence_time_list(); L = lengths(p); print("after ", L); ok = aligned(L)
elif case == "subproject":
    d = tempfile.mkdtemp(); path = os.path.join(d, "sub.json")
    sub, _, _, _ = make(); sub.simulate(); sub.write_simple_json(path)
    st = BaseSubProjectTask("sub"); st.set_all_attributes_from_json(path); 
    p, a, w, wp = make([st]); st.set_work_amount_progress_of_unit_step_time(p.unit_timedelta)
    p.simulate(absence_time_list=[1]); print("before", lengths(p)); p.remove_absence_time_list(); L = lengths(p); print("after ", L); ok = aligned(L)
    os.remove(path); os.rmdir(d)
print("OK" if ok else "DEFECT")
sys.exit(0 if ok else 1)
