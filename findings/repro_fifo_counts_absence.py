"""Stand-alone reproduction (OPEN finding): the FIFO task rule ranks by the number of READY entries in a task's
state log; a project-wide absence step logs READY/WORKING tasks as READY, so absence steps count as waiting time
and change later allocation: simulate(absence=[0]) with the absence step removed differs from simulate()."""
import sys
sys.path.insert(0, sys.argv[1] if len(sys.argv) > 1 else "/repo")
import warnings; warnings.filterwarnings("ignore")
from pDESy.model.base_project import BaseProject
from pDESy.model.base_priority_rule import TaskPriorityRuleMode
from pDESy.model.base_task import BaseTask
from pDESy.model.base_team import BaseTeam
from pDESy.model.base_worker import BaseWorker
from pDESy.model.base_workflow import BaseWorkflow
from pDESy.model.base_organization import BaseOrganization

def make():
    t0 = BaseTask("t0", default_work_amount=1.0); t1 = BaseTask("t1", default_work_amount=1.0); t4 = BaseTask("t4", default_work_amount=1.0)
    t1.append_input_task(t0)
    w0 = BaseWorker("w0", ID="w0", workamount_skill_mean_map={"t0": 1.0, "t1": 1.0, "t4": 1.0})
    w3 = BaseWorker("w3", ID="w3", workamount_skill_mean_map={"t4": 0.25})
    m0 = BaseTeam("m0", worker_list=[w0]); m0.extend_targeted_task_list([t0, t1, t4])
    m1 = BaseTeam("m1", worker_list=[w3]); m1.extend_targeted_task_list([t0, t4])
    return BaseProject(workflow=BaseWorkflow([t0, t1, t4]), organization=BaseOrganization([m0, m1])), t1

p0, a0 = make(); p0.simulate(task_priority_rule=TaskPriorityRuleMode.FIFO)
p1, a1 = make(); p1.simulate(task_priority_rule=TaskPriorityRuleMode.FIFO, absence_time_list=[0]); p1.remove_absence_time_list()
print("no absence      : time", p0.time, "t1 workers per step", a0.allocated_worker_id_record)
print("absence removed : time", p1.time, "t1 workers per step", a1.allocated_worker_id_record)
sys.exit(0 if (p0.time, a0.allocated_worker_id_record) == (p1.time, a1.allocated_worker_id_record) else 1)
