"""Stand-alone reproductions of the JSON save/load defects.
Usage: repro_json.py <case> [repo]   cases: sub_unconfigured | sub_unit | lst_zero | task_rule | mainwp | wp_inputs | parent_workflow"""
import sys
case = sys.argv[1]
sys.path.insert(0, sys.argv[2] if len(sys.argv) > 2 else "/repo")
import warnings; warnings.filterwarnings("ignore")
import os, tempfile, json, datetime
from pDESy.model.base_project import BaseProject
from pDESy.model.base_task import BaseTask
from pDESy.model.base_subproject_task import BaseSubProjectTask
from pDESy.model.base_component import BaseComponent
from pDESy.model.base_product import BaseProduct
from pDESy.model.base_team import BaseTeam
from pDESy.model.base_worker import BaseWorker
from pDESy.model.base_facility import BaseFacility
from pDESy.model.base_workplace import BaseWorkplace
from pDESy.model.base_workflow import BaseWorkflow
from pDESy.model.base_organization import BaseOrganization
from pDESy.model.base_priority_rule import ResourcePriorityRuleMode, TaskPriorityRuleMode

d = tempfile.mkdtemp(); path = os.path.join(d, "p.json"); path2 = os.path.join(d, "p2.json")
def roundtrip(p):
    p.write_simple_json(path); q = BaseProject(); q.read_simple_json(path); return q
ok = True
try:
    if case == "sub_unconfigured":
        p = BaseProject(workflow=BaseWorkflow([BaseSubProjectTask(name="sub", file_path="x.json")]))
        try:
            p.write_simple_json(path); print("written")
        except AttributeError as e:
            print("write_simple_json raised AttributeError:", e); ok = False
    elif case == "sub_unit":
        st = BaseSubProjectTask(name="sub", file_path="x.json", unit_timedelta=datetime.timedelta(minutes=5)); st.read_json_file = False
        q = roundtrip(BaseProject(workflow=BaseWorkflow([st])))
        u = q.workflow.task_list[0].unit_timedelta
        print("restored unit_timedelta:", repr(u)); ok = isinstance(u, datetime.timedelta)
    elif case == "lst_zero":
        a = BaseTask("a", default_work_amount=2.0); p = BaseProject(workflow=BaseWorkflow([a])); p.initialize()
        q = roundtrip(p); b = q.workflow.task_list[0]
        print("original lst/lft", a.lst, a.lft, "restored", b.lst, b.lft); ok = (a.lst, a.lft) == (b.lst, b.lft)
    elif case in ("task_rule", "mainwp", "wp_inputs", "parent_workflow"):
        t = BaseTask("t", default_work_amount=1.0, worker_priority_rule=ResourcePriorityRuleMode.HSV)
        c = BaseComponent("c"); c.append_targeted_task(t)
        w1 = BaseWorker("w1", main_workplace_id="wp1-id", workamount_skill_mean_map={"t": 1.0})
        team = BaseTeam("team", worker_list=[w1]); team.extend_targeted_task_list([t])
        wp1 = BaseWorkplace("wp1", ID="wp1-id"); wp2 = BaseWorkplace("wp2", ID="wp2-id"); wp2.append_input_workplace(wp1)
        q = roundtrip(BaseProject(product=BaseProduct([c]), workflow=BaseWorkflow([t]), organization=BaseOrganization([team], [wp1, wp2])))
        if case == "task_rule":
            r = q.workflow.task_list[0].worker_priority_rule; print("restored worker_priority_rule:", r); ok = r == ResourcePriorityRuleMode.HSV
        elif case == "mainwp":
            r = q.organization.team_list[0].worker_list[0].main_workplace_id; print("restored main_workplace_id:", r); ok = r == "wp1-id"
        elif case == "wp_inputs":
            r = q.organization.workplace_list[1].input_workplace_list; print("restored input_workplace_list:", r)
            ok = len(r) == 1 and r[0] is q.organization.workplace_list[0] and q.organization.workplace_list[0].output_workplace_list == [q.organization.workplace_list[1]]
        else:
            r = q.workflow.task_list[0].parent_workflow; print("restored parent_workflow:", r); ok = r is q.workflow
finally:
    for f in (path, path2):
        if os.path.exists(f): os.remove(f)
    os.rmdir(d)
print("OK" if ok else "DEFECT")
sys.exit(0 if ok else 1)
