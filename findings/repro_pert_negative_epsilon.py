"""Stand-alone reproduction: the backward pass of update_PERT_data uses 'lft < 0' as the marker for 'not calculated
yet'.  With decimal work amounts the correct latest finish of a critical zero-work head task is a tiny negative
number (-1.7e-16); it is taken for the marker and overwritten by the larger value coming from a non-critical
successor (depending on the iteration order of a set): the head task gets slack 0.2 instead of 0."""
import sys
sys.path.insert(0, sys.argv[1] if len(sys.argv) > 1 else "/repo")
import warnings; warnings.filterwarnings("ignore")
from pDESy.model.base_task import BaseTask
from pDESy.model.base_workflow import BaseWorkflow
seen = set()
for pad in range(200):
    junk = [object() for _ in range(pad)]
    head = BaseTask("head", default_work_amount=0.0)
    keep = [BaseTask("x") for _ in range(pad % 5)]
    a = BaseTask("a", default_work_amount=0.1); b = BaseTask("b", default_work_amount=0.3); c = BaseTask("c", default_work_amount=2.5)
    a.append_input_task(head); b.append_input_task(head); c.append_input_task(a); c.append_input_task(b)
    wf = BaseWorkflow([head, a, b, c]); wf.initialize()
    seen.add(round(head.lst - head.est, 6))
print("slack of the zero-work head task (critical chain head -> b -> c) over 200 rebuilds:", sorted(seen))
sys.exit(0 if seen == {0.0} or seen == {-0.0} else 1)
