"""Stand-alone reproduction: with a finish-to-finish link whose two tasks reach zero in the same step,
the step at which the successor FINISHES depends on the iteration order of a set of tasks, i.e. on
memory addresses.  The same model is built many times at different addresses; the makespans differ."""
import sys
sys.path.insert(0, sys.argv[1] if len(sys.argv) > 1 else "/repo")
import warnings; warnings.filterwarnings("ignore")
from pDESy.model.base_project import BaseProject
from pDESy.model.base_task import BaseTask, BaseTaskDependency
from pDESy.model.base_team import BaseTeam
from pDESy.model.base_worker import BaseWorker
from pDESy.model.base_workflow import BaseWorkflow
from pDESy.model.base_organization import BaseOrganization

def run(pad):
    junk = [object() for _ in range(pad)]          # shift the addresses of what is built next
    a = BaseTask("a", ID="a", default_work_amount=1.0)
    keep = [BaseTask("x") for _ in range(pad % 7)]
    b = BaseTask("b", ID="b", default_work_amount=1.0)
    b.append_input_task(a, task_dependency_mode=BaseTaskDependency.FF)
    wa = BaseWorker("wa", ID="wa", workamount_skill_mean_map={"a": 1.0})
    wb = BaseWorker("wb", ID="wb", workamount_skill_mean_map={"b": 1.0})
    team = BaseTeam("team", ID="team", worker_list=[wa, wb]); team.extend_targeted_task_list([a, b])
    p = BaseProject(workflow=BaseWorkflow([a, b]), organization=BaseOrganization([team]))
    p.simulate(max_time=30)
    return p.time, [int(s) for s in b.state_record_list]

results = set()
for pad in range(200):
    results.add(str(run(pad)))
print("distinct results over 200 rebuilds:", sorted(results))
sys.exit(0 if len(results) == 1 else 1)
