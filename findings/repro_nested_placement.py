"""Stand-alone reproductions for nested products.  Usage: repro_nested_placement.py <case> [repo]
 crash       : a child moved away by its own task, then the parent is placed again -> ValueError in remove_placed_component
 double_list : a grandchild placed by its own task stays listed at its old workplace when the top-level component is placed elsewhere"""
import sys
case = sys.argv[1]
sys.path.insert(0, sys.argv[2] if len(sys.argv) > 2 else "/repo")
import warnings; warnings.filterwarnings("ignore")
from pDESy.model.base_project import BaseProject
from pDESy.model.base_task import BaseTask
from pDESy.model.base_component import BaseComponent
from pDESy.model.base_product import BaseProduct
from pDESy.model.base_team import BaseTeam
from pDESy.model.base_worker import BaseWorker
from pDESy.model.base_facility import BaseFacility
from pDESy.model.base_workplace import BaseWorkplace
from pDESy.model.base_workflow import BaseWorkflow
from pDESy.model.base_organization import BaseOrganization

ok = True
if case == "crash":
    t3 = BaseTask("t3", ID="t3", default_work_amount=1.0); t4 = BaseTask("t4", ID="t4", default_work_amount=1.0)
    c0 = BaseComponent("c0", ID="c0", space_size=0.5); c1 = BaseComponent("c1", ID="c1", space_size=1.0)
    c0.append_child_component(c1); c0.append_targeted_task(t3); c1.append_targeted_task(t4)
    f0 = BaseFacility("f0", workamount_skill_mean_map={"t3": 0.25, "t4": 2.0}); f2 = BaseFacility("f2", workamount_skill_mean_map={"t4": 1.0})
    p0 = BaseWorkplace("p0", ID="p0", facility_list=[f0], max_space_size=1.0); p1 = BaseWorkplace("p1", ID="p1", facility_list=[f2], max_space_size=1.0)
    p0.extend_targeted_task_list([t3, t4]); p1.extend_targeted_task_list([t3, t4])
    w0 = BaseWorker("w0"); team = BaseTeam("team", worker_list=[w0]); team.extend_targeted_task_list([t3, t4])
    p = BaseProject(product=BaseProduct([c0, c1]), workflow=BaseWorkflow([t3, t4]), organization=BaseOrganization([team], [p0, p1]))
    try:
        p.simulate(max_time=10); print("simulate returned, time", p.time)
    except ValueError as e:
        print("simulate raised ValueError:", e); ok = False
else:
    t0 = BaseTask("t0", ID="t0", default_work_amount=1.0); t1 = BaseTask("t1", ID="t1", default_work_amount=3.0)
    c0 = BaseComponent("c0", ID="c0"); c1 = BaseComponent("c1", ID="c1"); c2 = BaseComponent("c2", ID="c2")
    c0.append_child_component(c1); c1.append_child_component(c2); c0.append_targeted_task(t0); c2.append_targeted_task(t1)
    f0 = BaseFacility("f0", workamount_skill_mean_map={"t0": 0.5, "t1": 1.0}); f2 = BaseFacility("f2", workamount_skill_mean_map={"t0": 1.5, "t1": 2.0})
    p0 = BaseWorkplace("p0", ID="p0", facility_list=[f0], max_space_size=1.0); p2 = BaseWorkplace("p2", ID="p2", facility_list=[f2], max_space_size=1.0)
    p0.extend_targeted_task_list([t0, t1]); p2.extend_targeted_task_list([t0, t1])
    w0 = BaseWorker("w0"); team = BaseTeam("team", worker_list=[w0]); team.extend_targeted_task_list([t0])
    p = BaseProject(product=BaseProduct([c0, c1, c2]), workflow=BaseWorkflow([t0, t1]), organization=BaseOrganization([team], [p0, p2]))
    p.simulate(max_time=3)
    listed = [wp.ID for wp in (p0, p2) if "c2" in wp.placed_component_id_record[0]]
    print("step 0: c2 reports", c2.placed_workplace_id_record[0], "and is listed by", listed); ok = len(listed) <= 1
print("OK" if ok else "DEFECT")
sys.exit(0 if ok else 1)
