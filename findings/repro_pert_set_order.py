"""Stand-alone reproduction: with two finish-to-finish successors of one task, the latest start time that
update_PERT_data stores for the predecessor depends on the iteration order of a set of tasks (ties in lft are
resolved by 'last writer wins'), i.e. on memory addresses; TSLACK priorities then differ from run to run."""
import sys
sys.path.insert(0, sys.argv[1] if len(sys.argv) > 1 else "/repo")
import warnings; warnings.filterwarnings("ignore")
from pDESy.model.base_task import BaseTask, BaseTaskDependency
from pDESy.model.base_workflow import BaseWorkflow
res = set()
for pad in range(300):
    junk = [object() for _ in range(pad)]
    a = BaseTask("a", default_work_amount=1.0)
    keep = [BaseTask("x") for _ in range(pad % 5)]
    b = BaseTask("b", default_work_amount=1.0); c = BaseTask("c", default_work_amount=0.1)
    b.append_input_task(a, task_dependency_mode=BaseTaskDependency.FF)
    c.append_input_task(a, task_dependency_mode=BaseTaskDependency.FF)
    wf = BaseWorkflow([a, b, c]); wf.initialize()
    res.add((a.lst, a.lft))
print("distinct (lst, lft) of the predecessor over 300 rebuilds:", sorted(res))
sys.exit(0 if len(res) == 1 else 1)
