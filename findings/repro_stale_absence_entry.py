"""Stand-alone reproduction: project.absence_time_list keeps steps that lie beyond the end of the run (e.g. a long
holiday calendar). insert_absence_time_list() does not move the registered steps back when it inserts steps before
them, so after an insertion such a stale entry points at a real working step, which remove_absence_time_list() then
deletes: insert + remove on an absence-free result does not give back the previous logs."""
import sys
sys.path.insert(0, sys.argv[1] if len(sys.argv) > 1 else "/repo")
import warnings; warnings.filterwarnings("ignore")
from pDESy.model.base_project import BaseProject
from pDESy.model.base_task import BaseTask
from pDESy.model.base_team import BaseTeam
from pDESy.model.base_worker import BaseWorker
from pDESy.model.base_workflow import BaseWorkflow
from pDESy.model.base_organization import BaseOrganization
a = BaseTask("a", default_work_amount=9.0)
w = BaseWorker("w", cost_per_time=1.0, workamount_skill_mean_map={"a": 1.0})
team = BaseTeam("team", worker_list=[w]); team.extend_targeted_task_list([a])
p = BaseProject(workflow=BaseWorkflow([a]), organization=BaseOrganization([team]))
p.simulate(absence_time_list=[10])            # the run needs 9 steps: step 10 never happens, the result is absence-free
before = (p.time, list(a.remaining_work_amount_record_list))
p.insert_absence_time_list([6, 9])
p.remove_absence_time_list()
after = (p.time, list(a.remaining_work_amount_record_list))
print("before:", before); print("after :", after)
sys.exit(0 if before == after else 1)
