"""Stand-alone reproductions of the OPEN nested-product findings.  Usage: repro_nested_open.py <case> [repo]
 removed_while_working : the only task of top-level component c0 finishes, c0 *and its child c1* are un-placed
                         although c1's own facility task is still WORKING with a facility of that workplace
 descendant_replaced   : after all tasks of top-level c0 are FINISHED its grandchild c2 (own task still unfinished)
                         is placed again at every step"""
import sys
case = sys.argv[1]
sys.path.insert(0, sys.argv[2] if len(sys.argv) > 2 else "/repo")
import warnings; warnings.filterwarnings("ignore")
from pDESy.model.base_project import BaseProject
from pDESy.model.base_task import BaseTask
from pDESy.model.base_component import BaseComponent
from pDESy.model.base_product import BaseProduct
from pDESy.model.base_team import BaseTeam
from pDESy.model.base_worker import BaseWorker
from pDESy.model.base_facility import BaseFacility
from pDESy.model.base_workplace import BaseWorkplace
from pDESy.model.base_workflow import BaseWorkflow
from pDESy.model.base_organization import BaseOrganization
ok = True
if case == "removed_while_working":
    t2 = BaseTask("t2", ID="t2", default_work_amount=1.0); t3 = BaseTask("t3", ID="t3", default_work_amount=1.0, need_facility=True)
    c0 = BaseComponent("c0", ID="c0"); c1 = BaseComponent("c1", ID="c1"); c0.append_child_component(c1)
    c0.append_targeted_task(t2); c1.append_targeted_task(t3)
    f3 = BaseFacility("f3", ID="f3", workamount_skill_mean_map={"t2": 2.0, "t3": 0.25})
    p1 = BaseWorkplace("p1", ID="p1", facility_list=[f3], max_space_size=1.0); p1.extend_targeted_task_list([t2, t3])
    w0 = BaseWorker("w0", ID="w0", workamount_skill_mean_map={"t2": 1.0}, facility_skill_map={"f3": 1.0})
    w1 = BaseWorker("w1", ID="w1", workamount_skill_mean_map={"t3": 1.0}, facility_skill_map={"f3": 1.0})
    team = BaseTeam("team", worker_list=[w0, w1]); team.extend_targeted_task_list([t2, t3])
    p = BaseProject(product=BaseProduct([c0, c1]), workflow=BaseWorkflow([t2, t3]), organization=BaseOrganization([team], [p1]))
    p.simulate(max_time=20)
    for k in range(p.time):
        if t3.allocated_facility_id_record[k] and c1.placed_workplace_id_record[k] != "p1":
            print("step", k, ": t3 works with", t3.allocated_facility_id_record[k], "of p1 while c1 is placed at", c1.placed_workplace_id_record[k]); ok = False; break
else:
    t0 = BaseTask("t0", ID="t0", default_work_amount=1.0); t1 = BaseTask("t1", ID="t1", default_work_amount=1.0)
    c0 = BaseComponent("c0", ID="c0"); c1 = BaseComponent("c1", ID="c1"); c2 = BaseComponent("c2", ID="c2")
    c0.append_child_component(c1); c1.append_child_component(c2); c0.append_targeted_task(t0); c2.append_targeted_task(t1)
    f0 = BaseFacility("f0", ID="f0", workamount_skill_mean_map={"t0": 1.0, "t1": 1.0})
    p0 = BaseWorkplace("p0", ID="p0", facility_list=[f0], max_space_size=1.0); p0.extend_targeted_task_list([t0, t1])
    w0 = BaseWorker("w0", ID="w0", workamount_skill_mean_map={"t0": 1.0}, facility_skill_map={"f0": 1.0})
    team = BaseTeam("team", worker_list=[w0]); team.extend_targeted_task_list([t0, t1])
    p = BaseProject(product=BaseProduct([c0, c1, c2]), workflow=BaseWorkflow([t0, t1]), organization=BaseOrganization([team], [p0]))
    p.simulate(max_time=6)
    fin = [int(s) for s in t0.state_record_list].index(-1)
    print("t0 (only task of top-level c0) FINISHED from step", fin, "| c2 placed at:", c2.placed_workplace_id_record)
    ok = all(x is None for x in c2.placed_workplace_id_record[fin + 1:])
print("OK" if ok else "DEFECT (open finding)")
sys.exit(0 if ok else 1)
