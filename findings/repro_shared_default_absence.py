"""Stand-alone reproduction: simulate() stores its shared mutable default argument absence_time_list=[] on the
project; insert_absence_time_list() then extends that very list, so a *different* project simulated later with
default arguments silently runs with absence steps."""
import sys
sys.path.insert(0, sys.argv[1] if len(sys.argv) > 1 else "/repo")
import warnings; warnings.filterwarnings("ignore")
from pDESy.model.base_project import BaseProject
from pDESy.model.base_task import BaseTask
from pDESy.model.base_team import BaseTeam
from pDESy.model.base_worker import BaseWorker
from pDESy.model.base_workflow import BaseWorkflow
from pDESy.model.base_organization import BaseOrganization

def make():
    a = BaseTask("a", default_work_amount=3.0)
    w = BaseWorker("w", workamount_skill_mean_map={"a": 1.0})
    team = BaseTeam("team", worker_list=[w]); team.extend_targeted_task_list([a])
    return BaseProject(workflow=BaseWorkflow([a]), organization=BaseOrganization([team]))

p1 = make(); p1.simulate()
clean_time = p1.time
p1.insert_absence_time_list([1])
p2 = make(); p2.simulate()
print("clean makespan", clean_time, "| other project after p1.insert_absence_time_list([1]):", p2.time,
      "| simulate.__defaults__[3] =", BaseProject.simulate.__defaults__[3])
sys.exit(0 if p2.time == clean_time and BaseProject.simulate.__defaults__[3] == [] else 1)
