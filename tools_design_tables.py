"""Regenerate the generated tables of DESIGN.md (between the BEGIN/END markers) from known_findings.json and seeded/*/meta.json."""
import glob, json, os, re
V = os.path.dirname(os.path.abspath(__file__))
kf = json.load(open(os.path.join(V, "known_findings.json")))["findings"]
rows = ["| id | property | status | /repo commit | what failed | stand-alone reproduction |", "|---|---|---|---|---|---|"]
for f in kf:
    what = f["what"]
    what = re.sub(r"^fixed: property=\S+ \S+ ", "", what)
    rows.append("| %s | %s%s | %s | %s | %s | %s |" % (f["id"], f["property"], (" (+" + ",".join(f["also_reported_by"]) + ")") if f.get("also_reported_by") else "",
                f["status"], f.get("commit", "-"), what.replace("|", "/"), (f.get("repro") or f.get("replay") or "").replace("|", " or ")))
ftab = "\n".join(rows)
rows = ["| seeded change | breaks | what was changed | needs | caught by (quick tier) |", "|---|---|---|---|---|"]
for d in sorted(glob.glob(os.path.join(V, "seeded", "C*"))):
    m = json.load(open(os.path.join(d, "meta.json")))
    own = m["breaks_property"]
    cb = m.get("caught_by", [])
    keys = m.get("check_results", {}).get(own, {}).get("keys", [])
    note = ""
    if m.get("out_of_scope"):
        note = "not claimed (outside the models the property quantifies over; reason in meta.json)"
    elif m.get("not_caught"):
        note = "NOT caught by any check (see 12.5, round 13; meta.json: note)"
    elif m.get("masked_by_known_finding"):
        note = "masked by open finding %s (reported as that known finding; see 12.5)" % m["masked_by_known_finding"]
    elif m.get("caught_by_other_property"):
        other = m["caught_by_other_property"]
        okeys = m.get("check_results", {}).get(other, {}).get("keys", [])
        note = "not %s's subject (meta.json: note); reported by %s%s" % (own, ", ".join(c for c in cb if c != own) or other, (" — e.g. `%s`" % okeys[0]) if okeys else "")
        if own not in cb:
            cb, keys = [], []
    cell = ", ".join(cb) + ((" — e.g. `%s`" % keys[0]) if keys else "")
    cell = (cell + "; " + note) if (cell and note) else (cell or note)
    rows.append("| %s | %s | %s | %s | %s |" % (os.path.basename(d), own, (m.get("summary") or "").replace("|", "/").replace("\n", " ")[:300],
                (m.get("needs") or "").replace("|", "/").replace("\n", " ")[:260], cell))
stab = "\n".join(rows)
p = os.path.join(V, "DESIGN.md")
s = open(p).read()
s = re.sub(r"(<!-- BEGIN FINDINGS TABLE -->\n).*?(\n?<!-- END FINDINGS TABLE -->)", lambda m: m.group(1) + ftab + "\n<!-- END FINDINGS TABLE -->", s, flags=re.S)
s = re.sub(r"(<!-- BEGIN SEEDED TABLE -->\n).*?(\n?<!-- END SEEDED TABLE -->)", lambda m: m.group(1) + stab + "\n<!-- END SEEDED TABLE -->", s, flags=re.S)
open(p, "w").write(s)
print("tables regenerated: %d findings, %d seeded changes" % (len(kf), len(rows) - 2))
