"""Evaluate a seeded breaking change against the checks.

usage: tools_seeded.py verify <src_dir> <ID> [patch.diff demo.py]   - confirm the claim: applies, tests pass, demo fails with / passes without
       tools_seeded.py run <seeded_dir> [ID ...]                    - run the given (default: all) quick checks against the patched scratch copy
Scratch copies live under $VERIF_SCRATCH (default /var/tmp/verif-scratch-<pid>) and are removed afterwards.
"""
import json
import os
import shutil
import subprocess
import sys
import time

VERIF = os.path.dirname(os.path.abspath(__file__))
IDS = ["C%02d" % i for i in range(1, 21)]


def sh(cmd, cwd=None, timeout=1800, env=None):
    p = subprocess.run(cmd, shell=True, cwd=cwd, capture_output=True, text=True, timeout=timeout, env=env)
    return p.returncode, p.stdout, p.stderr


def scratch_copy(patch, commit="HEAD"):
    base = os.environ.get("VERIF_SCRATCH") or "/var/tmp/verif-scratch-%d" % os.getpid()
    os.makedirs(base, exist_ok=True)
    d = os.path.join(base, "repo-%d" % int(time.time() * 1000))
    rc, o, e = sh("git -C /repo worktree add -q --detach %s %s" % (d, commit))
    if rc != 0:
        raise RuntimeError(e)
    if patch:
        rc, o, e = sh("git apply %s" % os.path.abspath(patch), cwd=d)
        if rc != 0:
            drop(d)
            raise RuntimeError("patch does not apply: " + e)
    return d


def drop(d):
    sh("git -C /repo worktree remove --force %s" % d)
    shutil.rmtree(d, ignore_errors=True)
    sh("git -C /repo worktree prune")
    try:
        os.rmdir(os.path.dirname(d))
    except OSError:
        pass


def verify(src, pid, patch="patch.diff", demo="demo.py"):
    patch = os.path.join(src, patch)
    demo = os.path.join(src, demo)
    out = {"property": pid}
    d = scratch_copy(patch)
    try:
        rc, o, e = sh("/venv/bin/python -m pytest -q -p no:cacheprovider --timeout=900 tests 2>&1 | tail -1", cwd=d)
        out["tests"] = o.strip()
        out["tests_pass"] = "176 passed" in o
        rc, o, e = sh("/venv/bin/python %s %s" % (demo, d), cwd=d, timeout=600)
        out["demo_with_patch_exit"] = rc
        out["demo_with_patch_msg"] = (o + e).strip()[-300:]
    finally:
        drop(d)
    d = scratch_copy(None)
    try:
        rc, o, e = sh("/venv/bin/python %s %s" % (demo, d), cwd=d, timeout=600)
        out["demo_without_patch_exit"] = rc
    finally:
        drop(d)
    out["confirmed"] = bool(out["tests_pass"] and out["demo_with_patch_exit"] == 1 and out["demo_without_patch_exit"] == 0)
    return out


def run_checks(seeded_dir, ids=None, n=None):
    patch = os.path.join(seeded_dir, "patch.diff")
    commit = "HEAD"
    mp = os.path.join(seeded_dir, "meta.json")
    if os.path.exists(mp):
        commit = json.load(open(mp)).get("applies_only_to_commit") or "HEAD"
    d = scratch_copy(patch, commit)
    res = {}
    try:
        for pid in (ids or IDS):
            t0 = time.time()
            cmd = "./check %s --tier quick --repo %s" % (pid, d)
            if n:
                cmd += " --n %d" % n
            envv = dict(os.environ)
            envv["VERIF_OUT"] = d + "-out"
            rc, o, e = sh(cmd, cwd=VERIF, env=envv)
            keys = [l.split("key=")[1].split(" ")[0] for l in o.splitlines() if l.strip().startswith("key=")]
            res[pid] = {"exit": rc, "keys": keys, "wall_s": round(time.time() - t0, 1)}
            if rc == 2:
                res[pid]["stderr"] = e[-500:]
    finally:
        drop(d)
        shutil.rmtree(d + "-out", ignore_errors=True)
    return res


if __name__ == "__main__":
    if sys.argv[1] == "verify":
        print(json.dumps(verify(*sys.argv[2:]), indent=1))
    else:
        r = run_checks(sys.argv[2], sys.argv[3:] or None)
        for pid, v in r.items():
            print(pid, v["exit"], v["keys"][:4], v["wall_s"])
