"""Regenerate MANIFEST.json from the property modules (run by hand after adding a property)."""
import importlib, json, os, sys
sys.path.insert(0, os.path.dirname(os.path.abspath(__file__)))
os.environ.setdefault("VERIF_REPO", "/repo")
IDS = ["C%02d" % i for i in range(1, 21)]
checks, na = [], []
for pid in IDS:
    path = os.path.join(os.path.dirname(os.path.abspath(__file__)), "dst", "props", pid.lower() + ".py")
    if not os.path.exists(path):
        na.append({"property_id": pid, "reason": "check not built yet (work in progress; the property is applicable, see DESIGN.md section 5)"})
        continue
    mod = importlib.import_module("dst.props." + pid.lower())
    checks.append({
        "property_id": pid,
        "quick_cmd": "./check %s --tier quick" % pid,
        "thorough_cmd": "./check %s --tier thorough" % pid,
        "evidence_file": "evidence/%s.json" % pid,
        "replay_cmd_template": "./check --replay {path}",
        "engine": "dst",
        "level_claimed": {"category": mod.LEVEL, "text": mod.LEVEL_TEXT, "design_ref": mod.DESIGN_REF},
        "level_note": mod.LEVEL_NOTE,
        "technique": mod.TECHNIQUE,
    })
man = {
    "version": 1,
    "setup_cmd": "./check --selftest --smoke",
    "hooks": {
        "guard": "PDESY_VERIF",
        "enable": "no source hooks: all seams pre-exist (constructor-injected collaborator subclasses, hash-ranked task/component subclasses, module-level names of pDESy.model.base_project); checks import the working tree with sys.path",
        "baseline_off_cmd": "cd /repo && /venv/bin/python -m pytest -ra -q -p no:cacheprovider --timeout=900 --continue-on-collection-errors",
        "source_commits": [],
        "add_only": True,
    },
    "engines": [{"name": "dst", "path": "dst/", "serves_properties": [c["property_id"] for c in checks],
                 "kind_free_text": "deterministic simulation with fault injection: seeded Director over the real pDESy step loop (schedule = hash ranks of task/component sets; faults = absences, pauses/restarts, JSON restarts, injected exceptions, log edits)"}],
    "checks": checks,
    "not_applicable": na,
    "notes": "All checks: ./check <ID> [--tier quick|thorough]; VERIF_SEED / VERIF_TIER honoured; exit 0 held, 1 VIOLATION, 2 harness error. known_findings.json lists genuine defects (open = recorded, fixed = repaired by a fix: commit).",
}
json.dump(man, open(os.path.join(os.path.dirname(os.path.abspath(__file__)), "MANIFEST.json"), "w"), indent=1)
print(len(checks), "checks,", len(na), "pending")
