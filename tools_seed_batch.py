"""Verify delivered seeded changes and run checks against them.  usage: tools_seed_batch.py <ID> [all]"""
import json, os, sys, shutil
sys.path.insert(0, os.path.dirname(os.path.abspath(__file__)))
import tools_seeded as T

pid = sys.argv[1]
allchecks = "all" in sys.argv[2:]
rnd = 13 if "round13" in sys.argv[2:] else 12 if "round12" in sys.argv[2:] else 11 if "round11" in sys.argv[2:] else 10 if "round10" in sys.argv[2:] else 9 if "round9" in sys.argv[2:] else 8 if "round8" in sys.argv[2:] else 7 if "round7" in sys.argv[2:] else 6 if "round6" in sys.argv[2:] else 5 if "round5" in sys.argv[2:] else 4 if "round4" in sys.argv[2:] else (3 if "round3" in sys.argv[2:] else (2 if "round2" in sys.argv[2:] else 1))
src = {1: "/tmp/seed-out/%s", 2: "/tmp/seed-out2/%s", 3: "/tmp/seed-out3/%s", 4: "/tmp/seed-out4/%s", 5: "/tmp/seed-out5/%s", 6: "/tmp/seed-out6/%s", 7: "/tmp/seed-out7/%s", 8: "/tmp/seed-out8/%s", 9: "/tmp/seed-out9/%s", 10: "/tmp/seed-out10/%s", 11: "/tmp/seed-out11/%s", 12: "/tmp/seed-out12/%s", 13: "/tmp/seed-out13/%s"}[rnd] % pid
LETTER = {(1, ""): "a", (1, "2"): "b", (2, ""): "c", (2, "2"): "d", (3, ""): "e", (3, "2"): "f", (4, ""): "g", (4, "2"): "h", (5, ""): "i", (5, "2"): "j", (6, ""): "k", (6, "2"): "l", (7, ""): "m", (7, "2"): "n", (8, ""): "o", (8, "2"): "p", (9, ""): "q", (9, "2"): "r", (10, ""): "s", (10, "2"): "t", (11, ""): "u", (11, "2"): "v", (12, ""): "w", (12, "2"): "x", (13, ""): "y", (13, "2"): "z"}
for suffix in ("", "2"):
    patch, demo, notes = "patch%s.diff" % suffix, "demo%s.py" % suffix, "notes%s.json" % suffix
    if not os.path.exists(os.path.join(src, patch)) or not os.path.exists(os.path.join(src, demo)):
        continue
    name = "%s_%s" % (pid, LETTER[(rnd, suffix)])
    try:
        v = T.verify(src, pid, patch, demo)
    except Exception as e:
        print(name, "VERIFY-ERROR", e)
        continue
    print(name, "confirmed" if v["confirmed"] else "NOT-CONFIRMED", v["tests"], v["demo_with_patch_exit"], v["demo_without_patch_exit"])
    if not v["confirmed"]:
        print("   ", v.get("demo_with_patch_msg", "")[-200:])
        continue
    dst = os.path.join(T.VERIF, "seeded", name)
    os.makedirs(dst, exist_ok=True)
    shutil.copy(os.path.join(src, patch), os.path.join(dst, "patch.diff"))
    shutil.copy(os.path.join(src, demo), os.path.join(dst, "demo.py"))
    n = {}
    if os.path.exists(os.path.join(src, notes)):
        try:
            n = json.load(open(os.path.join(src, notes)))
        except Exception:
            n = {}
    ids = None if allchecks else [pid]
    r = T.run_checks(dst, ids)
    caught = sorted(k for k, x in r.items() if x["exit"] == 1)
    meta_path = os.path.join(dst, "meta.json")
    meta = json.load(open(meta_path)) if os.path.exists(meta_path) else {}
    meta.update({
        "breaks_property": pid, "summary": n.get("summary"), "needs": n.get("needs"), "files": n.get("files"),
        "origin": "independent sub-agent given only the property text and a scratch worktree",
        "confirmed_by_me": {"tests": v["tests"], "demo_exit_with_patch": v["demo_with_patch_exit"], "demo_exit_without_patch": v["demo_without_patch_exit"],
                            "how": "tools_seeded.py verify: git worktree of /repo HEAD under /var/tmp + git apply, pytest, demo; clean worktree, demo"},
    })
    res = meta.get("check_results", {})
    for k, x in r.items():
        res[k] = {"exit": x["exit"], "keys": x["keys"][:6]}
    meta["check_results"] = res
    meta["caught_by"] = sorted(k for k, x in res.items() if x["exit"] == 1)
    meta["base_commit"] = os.popen("git -C /repo rev-parse --short HEAD").read().strip()
    json.dump(meta, open(meta_path, "w"), indent=1)
    print("   checks:", {k: (x["exit"], x["keys"][:2]) for k, x in r.items()})
